#![no_main]
use libfuzzer_sys::fuzz_target;
use std::sync::Once;
static INIT: Once = Once::new();

fuzz_target!(|data: &[u8]| {
    INIT.call_once(|| {
        sqverif::run::install_quiet_panic_hook();
        sqverif::run::silence_stdout();
    });
    if let Err((prop, msg)) = sqverif::fuzz_entry::check_stream_bytes(data) {
        eprintln!("FUZZ-VIOLATION property={} {}", prop, msg);
        std::process::abort();
    }
});
