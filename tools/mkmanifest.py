#!/usr/bin/env python3
"""Regenerates /verif/MANIFEST.json from the table below (kept next to the code so the two stay in step)."""
import json, os, sys
ROOT = os.path.dirname(os.path.dirname(os.path.abspath(__file__)))
props = [json.loads(l) for l in open(os.path.join(ROOT, "properties.jsonl"))]

# id -> (category, technique, level text, level note, design ref)
CHECKS = {
 "C01": ("exploration", "proptest-generated hostile byte streams x option sets through the real reader thread (builds with and without overflow checks) and the built CLI (dev + release), sentinel-frame oracle; shrunk replays",
         "generated-input search for panics, overflow, early stop and non-zero exit; bounded sense of termination",
         "a run proven wedged (every thread blocked and idle for 30 s, or 600 s of CPU burnt) is a violation, a run that is merely slow is inconclusive; -u drawn from a small set, -d from {0,1,5,60,600,2^32,i64::MAX/1000+1,i64::MAX}", "DESIGN.md §6 C01"),
 "C02": ("exploration", "proptest-generated digit strings/decorations + deterministic digit-count sweep against a reference acceptance predicate; table-level and get_message-level decoration invariance",
         "generated lines decide the iff (count, DF/length, parity) and decoration invariance on the aircraft table",
         "hex digit = ASCII 0-9a-fA-F; reference CRC-24", "DESIGN.md §6 C02"),
 "C03": ("exploration", "address sweep (2^22 quick / 2^24 thorough per format) against an independent CRC-24 + proptest interleaved histories with full-table before/after diff",
         "round-trip builder->get_icao for enumerated addresses and generated payloads; history invariant 'only the addressed row may change'",
         "reference CRC-24; HashMap key uniqueness checked as row.icao == key", "DESIGN.md §6 C03"),
 "C04": ("exploration", "enumerated error patterns (all 1-/2-bit, all bursts <= 24) + proptest heavy patterns on generated intact squitters; reference CRC decides reject; batched table-unchanged oracle with bisection",
         "every CRC-detectable corruption of generated squitters must leave the table bit-for-bit unchanged",
         "reference CRC-24; DF11 rule = upper 17 remainder bits zero", "DESIGN.md §6 C04"),
 "C05": ("exploration", "exhaustive altitude-code enumeration (8192 AC13 x DF4/DF20, 4096 AC12 x TC9-18) x proptest contexts against an independent Q-bit/Gillham decoder + proptest report sequences (DF4/DF20/airborne-position mix, codes from a small pool, latest report wins after every step); Gillham class pinned by a known-findings table",
         "complete over the code dimension, sampled over context (payload, address, path, options)",
         "Gillham codes are a recorded known finding evaluated on canonical frames", "DESIGN.md §6 C05"),
 "C06": ("exploration", "exhaustive identity-code enumeration (8192 x DF5/DF21) x proptest contexts against an octal-digit reference + proptest histories of foreign frames + proptest reply sequences (codes from a small pool, latest reply wins after every step)",
         "complete over the code dimension; history invariants 'no other format changes the squawk' and 'the latest DF5/DF21 reply wins'",
         "identity code layout per Annex 10", "DESIGN.md §6 C06"),
 "C07": ("exploration", "exhaustive position x character-code grid and TC x CA grid + proptest strings / BDS 2,0 gate states against a character-table reference, incl. the printed W and CALLSIGN cells + proptest callsign report sequences (squitter / BDS 2,0 mix, strings from a small pool, latest report wins after every step)",
         "grid complete; contexts generated; rendered cells read from captured Planes::print output",
         "blank vs empty callsign not distinguished", "DESIGN.md §6 C07"),
 "C09": ("exploration", "axis-exhaustive velocity magnitudes, boundary grid, all vertical-rate codes + proptest combinations (thorough: full component grid) against a closed-form reference, create/update paths, -U/-R",
         "closed-form oracle with stated float tolerance; no-information conventions checked",
         "track of a zero vector unconstrained", "DESIGN.md §6 C09"),
 "C13": ("exploration", "metamorphic: table(stream) == table(reference-accepted subsequence) over proptest mixed streams with junk lines (NUL, invalid UTF-8, lone CR, 64-256 KiB); in-process and through the CLI",
         "both sides are real runs; the accepted subsequence is computed by the independent C02/C04 predicate",
         "invalid-UTF-8 junk never carries an accepted digit count", "DESIGN.md §6 C13"),
 "C08": ("exploration", "proptest positions stratified over all NL zones / boundaries / antimeridian, encoded by an independent CPR encoder, stateful runs with simulated time (delays around 10 s), decode-or-unchanged oracle, independent great-circle distance",
         "generated-input search with an inverse (encoder) oracle and a history invariant ('otherwise unchanged')",
         "reference CPR encoder + closed-form NL; wall-clock ambiguity discarded and counted", "DESIGN.md §6 C08"),
 "C10": ("exploration", "proptest stateful histories of DF11 / DF17 / Comm-B replies with registers synthesised from physical values; gate/advertisement model; soundness (group changes only when allowed, values = Doc 9871 decode) and completeness (valid advertised register must decode unless shadowed)",
         "reference model of the capability gate plus independent register decoders; both directions of the statement are checked",
         "undetermined gate states assert nothing; lenient shadowing rule", "DESIGN.md §6 C10"),
 "C11": ("exploration", "bounded-exhaustive sequences (length <= 2 quick, <= 3 thorough) over a 46-symbol frame alphabet x 4 option sets + proptest long interleaved histories; per-step transition oracle with acceptable-value sets, bystander rows bit-identical, idempotent re-feed",
         "reference fold evaluated after every prefix; complete for short sequences over the fixed alphabet",
         "unconstrained zones listed in the evidence 'excluded' counters", "DESIGN.md §6 C11"),
 "C12": ("exploration", "proptest stateful schedules of frames and silences (simulated time) x delete_after x -U x -f; history invariant on presence / absence / refreshed stamp / fresh row / row bound",
         "model tracks last-heard times; expiry is only demanded after 12 accepted frames of one reader run",
         "time simulated by shifting the stored stamps", "DESIGN.md §6 C12"),
 "C14": ("exploration", "proptest row states injected into the table x all 32 -i subsets, cut into cells by an independent column specification and compared with an independent renderer; refresh structure of the real reader / CLI output",
         "independent column spec + cell renderer; width equality when every value fits",
         "annotation characters in separator positions allowed", "DESIGN.md §6 C14"),
 "C15": ("exploration", "proptest table contents with ties / blanks / sub-unit differences x -o strings: permutation + monotone-key oracle on Planes::print output; every refresh of generated streams through the reader / CLI",
         "permutation and monotonicity are validity predicates (ties any order, unspecified directions accept both)",
         "letter C not generated", "DESIGN.md §6 C15"),
 "C16": ("exploration", "metamorphic filter relation table(stream,-f F) == table(admitted frames) + reference DF counts against the reader's own counter line (captured in process and via the CLI)",
         "reference count from the independent acceptance predicate; excluded frames must leave the table bit-identical",
         "counts of DFs outside the nine formats not asserted", "DESIGN.md §6 C16"),
 "C18": ("fault_enumeration", "enumerated (all sequences of length <= 2 quick / <= 3 thorough) and generated fault sequences against the built CLI with a harness-owned loopback peer (refuse, close, frames+close, partial line+RST, junk), followed by a healthy connection",
         "fault sequences are enumerated up to the stated length; oracle = process alive, reconnects, table kept, lower bound on the retry pause (upper bound after four refusals in a row)",
         "liveness only in the bounded sense (60 s deadline = inconclusive)", "DESIGN.md §6 C18"),
 "C19": ("exploration", "differential: same generated history under two option sets differing only in presentation options (-i -o -c -u -M -D -O; -l via CLI); per-prefix comparison of decode results with and without -U on histories of valid DF4/5/11/17 frames",
         "both sides are real runs; relation taken from the statement",
         "histories slower than 0.9 s discarded", "DESIGN.md §6 C19"),
 "C17": ("exploration", "exhaustive enumeration of all 2^24 addresses against an independent block table + proptest-generated addresses and short histories through the reader + the code as printed by Planes::print",
         "every address is run through the public constructor and compared with a reference allocation table; complete for the address dimension, sampled for the frame formats that carry the address through the reader",
         "trusts the reference table transcribed from Annex 10 (two disputed ranges accept either answer)", "DESIGN.md §6 C17"),
}
PENDING_REASON = "check not built yet in this session (work in progress; see DESIGN.md §6 for the planned generator and oracle)"

checks = []
na = []
for p in props:
    pid = p["id"]
    if pid in CHECKS:
        cat, tech, text, note, ref = CHECKS[pid]
        checks.append({
            "property_id": pid,
            "quick_cmd": f"./check {pid} quick",
            "thorough_cmd": f"./check {pid} thorough",
            "evidence_file": f"/verif/evidence/{pid}.json",
            "replay_cmd_template": "./check --replay {path}",
            "engine": "pbt",
            "level_claimed": {"category": cat, "text": text, "design_ref": ref},
            "level_note": note,
            "technique": tech,
        })
    else:
        na.append({"property_id": pid, "reason": PENDING_REASON})

m = {
 "version": 1,
 "setup_cmd": "./check --setup",
 "hooks": {
   "guard": "squitterator_verif",
   "enable": "none needed: the harness links /repo unmodified through a cargo path dependency and uses only its public API (all-pub Args/Planes/Plane, spawn_reader_thread, get_message, get_icao, Planes::print) plus the built CLI",
   "baseline_off_cmd": "cd /repo && cargo test --workspace --no-fail-fast --offline",
   "source_commits": [],
   "add_only": True,
 },
 "engines": [
   {"name": "pbt", "path": "harness/", "serves_properties": sorted(CHECKS), "kind_free_text": "Rust binary: proptest generators + bounded-exhaustive sweeps with reference oracles, 16 worker processes, replay files"},
   {"name": "libfuzzer", "path": "fuzz/", "serves_properties": ["C01", "C02", "C13"], "kind_free_text": "cargo-fuzz targets fz_stream / fz_line with the semantic oracles inside the target; campaign run by the thorough tiers, corpus replayed in process by the quick tiers"},
 ],
 "checks": checks,
 "not_applicable": na,
 "notes": "All checks rebuild the harness (and the CLI where used) from /repo's working tree via ./check. Exit 2 = build failure or inconclusive run, never a violation. Known findings: KNOWN_FINDINGS.txt (+ known_findings/C05_gillham.tsv). Sensitivity results: DESIGN.md sections 12 and 13, mutants/, seeded/.",
}
json.dump(m, open(os.path.join(ROOT, "MANIFEST.json"), "w"), indent=1)
print("wrote MANIFEST.json with", len(checks), "checks,", len(na), "not_applicable")
