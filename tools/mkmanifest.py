#!/usr/bin/env python3
"""Regenerates /verif/MANIFEST.json from the table below (kept next to the code so the two stay in step)."""
import json, os, sys
ROOT = os.path.dirname(os.path.dirname(os.path.abspath(__file__)))
props = [json.loads(l) for l in open(os.path.join(ROOT, "properties.jsonl"))]

# id -> (category, technique, level text, level note, design ref)
CHECKS = {
 "C17": ("exploration", "exhaustive enumeration of all 2^24 addresses against an independent block table + proptest-generated addresses through the reader",
         "every address is run through the public constructor and compared with a reference allocation table; complete for the address dimension, sampled for the frame formats that carry the address through the reader",
         "trusts the reference table transcribed from Annex 10 (two disputed ranges accept either answer)", "DESIGN.md §6 C17"),
}
PENDING_REASON = "check not built yet in this session (work in progress; see DESIGN.md §6 for the planned generator and oracle)"

checks = []
na = []
for p in props:
    pid = p["id"]
    if pid in CHECKS:
        cat, tech, text, note, ref = CHECKS[pid]
        checks.append({
            "property_id": pid,
            "quick_cmd": f"./check {pid} quick",
            "thorough_cmd": f"./check {pid} thorough",
            "evidence_file": f"/verif/evidence/{pid}.json",
            "replay_cmd_template": "./check --replay {path}",
            "engine": "pbt",
            "level_claimed": {"category": cat, "text": text, "design_ref": ref},
            "level_note": note,
            "technique": tech,
        })
    else:
        na.append({"property_id": pid, "reason": PENDING_REASON})

m = {
 "version": 1,
 "setup_cmd": "./check --setup",
 "hooks": {
   "guard": "squitterator_verif",
   "enable": "none needed: the harness links /repo unmodified through a cargo path dependency and uses only its public API (all-pub Args/Planes/Plane, spawn_reader_thread, get_message, get_icao, Planes::print) plus the built CLI",
   "baseline_off_cmd": "cd /repo && cargo test --workspace --no-fail-fast --offline",
   "source_commits": [],
   "add_only": True,
 },
 "engines": [
   {"name": "pbt", "path": "harness/", "serves_properties": sorted(CHECKS), "kind_free_text": "Rust binary: proptest generators + bounded-exhaustive sweeps with reference oracles, 16 worker processes, replay files"},
 ],
 "checks": checks,
 "not_applicable": na,
 "notes": "All checks rebuild the harness (and the CLI where used) from /repo's working tree via ./check. Exit 2 = build failure or inconclusive run, never a violation.",
}
json.dump(m, open(os.path.join(ROOT, "MANIFEST.json"), "w"), indent=1)
print("wrote MANIFEST.json with", len(checks), "checks,", len(na), "not_applicable")
