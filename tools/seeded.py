#!/usr/bin/env python3
"""Evaluates independently written seeded changes (sub-agent output under /tmp/seed/<id>/out/<X>/):
  1. confirms, in the agent's own scratch worktree, that the change compiles, passes the repository's tests,
     that the demonstration fails with it and passes without it;
  2. copies patch + demo + meta.json to /verif/seeded/<id>-<X>/;
  3. applies the patch to /repo, runs the owning quick check (and, on a miss or with --all, every other check),
     restores /repo, and records the exit codes in meta.json.
Usage: tools/seeded.py [--all] [--no-confirm] C07-A C09-B ...   (no names = everything found)"""
import json, os, shutil, subprocess, sys, glob, time
ROOT = os.path.dirname(os.path.dirname(os.path.abspath(__file__)))
REPO = "/repo"
SEED = "/tmp/seed"
WAVE = ""
for _i, _a in enumerate(sys.argv):
    if _a == "--wave" and _i + 1 < len(sys.argv):
        WAVE = sys.argv[_i + 1]
        SEED = "/tmp/seed" + WAVE
IDS = [f"C{i:02d}" for i in range(1, 20)]

def sh(cmd, cwd=None, timeout=3600):
    return subprocess.run(cmd, shell=True, cwd=cwd, capture_output=True, text=True, timeout=timeout)

def tests_ok(wt):
    r = sh("cargo test --offline 2>&1 | grep -E '^test result|^error'", cwd=wt)
    return ("66 passed" in r.stdout and "FAILED" not in r.stdout and "error" not in r.stdout), r.stdout.strip()

def run_demo(wt, demo):
    """returns True when the demo PASSES"""
    os.makedirs(os.path.join(wt, "tests"), exist_ok=True)
    if demo.endswith(".rs"):
        dst = os.path.join(wt, "tests", "seed_demo.rs")
        shutil.copy(demo, dst)
        r = sh("cargo test --offline --test seed_demo 2>&1 | tail -5", cwd=wt)
        ok = "test result: ok" in r.stdout
        os.remove(dst)
        return ok, r.stdout.strip()[-400:]
    else:
        r = sh(f"bash {demo}", cwd=wt)
        return r.returncode == 0, (r.stdout + r.stderr)[-400:]

def confirm(pid, x):
    wt = os.path.join(SEED, pid)
    out = os.path.join(wt, "out", x)
    patch = os.path.join(out, "patch.diff")
    demos = glob.glob(os.path.join(out, "demo.rs")) + glob.glob(os.path.join(out, "demo.sh"))
    res = {"patch_applies": False}
    if not os.path.exists(patch) or not demos:
        return res
    sh("git checkout -- . && rm -rf tests", cwd=wt)
    ok_clean, msg_clean = run_demo(wt, demos[0])
    a = sh(f"git apply {patch}", cwd=wt)
    res["patch_applies"] = a.returncode == 0
    if a.returncode == 0:
        t_ok, t_msg = tests_ok(wt)
        ok_mut, msg_mut = run_demo(wt, demos[0])
        res.update({"repo_tests_pass_with_change": t_ok, "demo_passes_without_change": ok_clean, "demo_fails_with_change": not ok_mut, "demo_output_with_change": msg_mut[-300:]})
    sh("git checkout -- . && rm -rf tests", cwd=wt)
    return res

def evaluate(pid, x, run_all, do_confirm):
    name = f"{pid}-{WAVE}{x}"
    src = os.path.join(SEED, pid, "out", x)
    dst = os.path.join(ROOT, "seeded", name)
    os.makedirs(dst, exist_ok=True)
    for f in os.listdir(src):
        if os.path.isfile(os.path.join(src, f)) and os.path.getsize(os.path.join(src, f)) < 200_000:
            shutil.copy(os.path.join(src, f), os.path.join(dst, f))
    meta_path = os.path.join(dst, "meta.json")
    meta = json.load(open(meta_path)) if os.path.exists(meta_path) else {}
    meta.update({"breaks_property": pid, "origin": "written by an independent sub-agent that saw only the property text and a scratch worktree"})
    if do_confirm:
        meta["confirmation"] = confirm(pid, x)
    notes = os.path.join(dst, "NOTES.md")
    if os.path.exists(notes):
        txt = open(notes).read()
        meta["needs_to_manifest"] = "see NOTES.md"
    assert sh(f"git -C {REPO} status --porcelain").stdout.strip() == "", "/repo not clean"
    a = sh(f"git -C {REPO} apply {os.path.join(dst, 'patch.diff')}")
    results = {}
    if a.returncode != 0:
        meta["checks"] = {"error": "patch does not apply to /repo: " + a.stderr[-200:]}
    else:
        try:
            order = [pid] + [i for i in IDS if i != pid]
            for i, c in enumerate(order):
                if i > 0 and not run_all and results.get(pid) == 1:
                    break
                t0 = time.time()
                r = sh(f"./check {c} quick", cwd=ROOT)
                results[c] = r.returncode
                if r.returncode == 1:
                    det = [l for l in r.stdout.splitlines() if l.strip().startswith("detail:")]
                    meta.setdefault("details", {})[c] = det[0][:400] if det else ""
                if i == 0 and r.returncode == 1 and not run_all:
                    break
        finally:
            sh(f"git -C {REPO} checkout -- . && git -C {REPO} clean -fdq src tests")
        meta["checks"] = results
        meta["ran"] = f"git -C /repo apply seeded/{name}/patch.diff; ./check <id> quick; git -C /repo checkout -- ."
        meta["caught_by"] = sorted([c for c, v in results.items() if v == 1])
    json.dump(meta, open(meta_path, "w"), indent=1)
    print(name, "confirm:", meta.get("confirmation"), "checks:", results, flush=True)

def main():
    args = [a for a in sys.argv[1:] if not a.startswith("--") and a != WAVE]
    run_all = "--all" in sys.argv
    do_confirm = "--no-confirm" not in sys.argv
    names = args or sorted(f"{os.path.basename(os.path.dirname(os.path.dirname(p)))}-{os.path.basename(p)}" for p in glob.glob(f"{SEED}/C*/out/[ABC]"))
    for n in names:
        pid, x = n.split("-")
        x = x[len(WAVE):] if WAVE and x.startswith(WAVE) else x
        evaluate(pid, x, run_all, do_confirm)

if __name__ == "__main__":
    try:
        main()
    finally:
        sh(f"git -C {REPO} checkout -- . ")
