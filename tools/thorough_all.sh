#!/bin/bash
# Runs the thorough tier of every check (or of the ids given) from a snapshot of /verif, against a snapshot of
# /repo when VP_RUN_REPO is set (vp run --with-repo): the harness' path dependency is rewritten to that copy so the
# run is not disturbed by edits to /repo.  Results go to stdout; evidence lands in this snapshot, not in /verif.
set -u
cd "$(dirname "$0")/.."
REPO="${VP_RUN_REPO:-/repo}"
if [ "$REPO" != "/repo" ]; then
  sed -i "s#path = \"/repo\"#path = \"$REPO\"#" harness/Cargo.toml
  export VERIF_REPO="$REPO"
fi
IDS="${*:-C01 C02 C03 C04 C05 C06 C07 C08 C09 C10 C11 C12 C13 C14 C15 C16 C17 C18 C19}"
TIER="${TIER:-thorough}"
for id in $IDS; do
  s=$(date +%s)
  ./check "$id" "$TIER" 2>&1 | grep -v "^KNOWN-FINDING" | tail -6
  echo "== $id exit=${PIPESTATUS[0]} took $(( $(date +%s) - s )) s"
done
