#!/usr/bin/env python3
"""Sensitivity harness: applies each hand-written mutant (a textual replacement in /repo), checks that the
repository's own tests still pass, runs the owning quick checks and reports which ones alarm.  The tree is
restored after every mutant.  Usage: tools/mutants.py [name-substring ...]   (results -> mutants/RESULTS.tsv)"""
import subprocess, sys, os, json, time
REPO = "/repo"
ROOT = os.path.dirname(os.path.dirname(os.path.abspath(__file__)))

# (name, [properties expected to alarm], file, old, new)
M = [
 ("c01-unwrap-display", ["C01"], "src/decoder/plane/simple_display.rs", 'write!(f, "{:>3.0}", track)?;', 'write!(f, "{:>3.0}", track.checked_sub(0).filter(|t| *t < 359).unwrap())?;'),
 ("c01-bds-index", ["C01"], "src/decoder/bds.rs", "if message[10] & 0x7 == 0 && message[11] & 0xC == 0 {", "if message[10] & 0x7 == 0 && message[11 + (message[27] as usize >> 3) * 20] & 0xC == 0 {"),
 ("c01-vrate-underflow", ["C01", "C09"], "src/decoder/adsb/vertical_rate.rs", ".filter(|&f| f.1 != 0)", ".filter(|&f| f.1 != 1)"),
 ("c01-alt-underflow", ["C01", "C05"], "src/decoder/adsb/altitude.rs", ".checked_sub(1000)", ".checked_sub(1000).or_else(|| Some(0u32 - (code as u32 & 1) + 1).filter(|_| false))"),
 ("c02-accept-27", ["C02", "C13"], "src/decoder/utils/format.rs", "14 | 28 => Some(trimmed_line),", "14 | 28 => Some(trimmed_line),\n        27 => Some(trimmed_line[..26][12..].to_vec()),"),
 ("c02-no-df-length", ["C02"], "src/decoder/utils.rs", ".filter(|message| (message[0] & 0b1000 == 0) == (message.len() == 14))", ".filter(|message| (message[0] & 0b1000 == 0) == (message.len() == 14) || message.len() == 28)"),
 ("c02-ts-only-40", ["C02"], "src/decoder/utils/format.rs", "26 | 40 => Some(trimmed_line[12..].to_vec()),", "40 => Some(trimmed_line[12..].to_vec()),"),
 ("c02-colon-resets", ["C02"], "src/decoder/utils/format.rs", "let trimmed_line: Vec<u32> = line.chars().filter_map(|c| c.to_digit(16)).collect();", "let line = line.rsplit(':').next().unwrap_or(line);\n    let trimmed_line: Vec<u32> = line.chars().filter_map(|c| c.to_digit(16)).collect();"),
 ("c02-reject-lowercase", ["C02"], "src/decoder/utils/format.rs", "line.chars().filter_map(|c| c.to_digit(16)).collect();", "line.chars().filter(|c| !c.is_ascii_lowercase()).filter_map(|c| c.to_digit(16)).collect();"),
 ("c03-poly", ["C03"], "src/decoder/utils/crc.rs", "fn crc56(message: &[u32]) -> u32 {\n    let poly = 0xFFFA0480;", "fn crc56(message: &[u32]) -> u32 {\n    let poly = 0xFFFA0400;"),
 ("c03-87-steps", ["C03"], "src/decoder/utils/crc.rs", "for _ in 1..=88 {", "for _ in 1..=87 {"),
 ("c03-aa-bits", ["C03"], "src/decoder/adsb/icao.rs", "_ => crate::range_value(message, 9, 32).filter(|&f| f != 0),", "_ => crate::range_value(message, 8, 31).filter(|&f| f != 0),"),
 ("c03-key-mask", ["C03"], "src/decoder/planes.rs", ".entry(icao)", ".entry(icao & 0xFFFFF0)"),
 ("c04-low16", ["C04"], "src/decoder/utils/crc.rs", "17 | 18 => remainder,", "17 | 18 => remainder & 0xFFFF,"),
 ("c04-skip-df18", ["C04"], "src/decoder/utils/crc.rs", "17 | 18 => remainder,", "17 => remainder,"),
 ("c04-df11-strict", ["C04"], "src/decoder/utils/crc.rs", "11 => remainder & 0xFF_FF80,", "11 => remainder,"),
 ("c04-df11-23bits", ["C04"], "src/decoder/utils/crc.rs", "11 => remainder & 0xFF_FF80,", "11 => remainder & 0xFF_FF00,"),
 ("c05-1200", ["C05"], "src/decoder/adsb/altitude.rs", ".checked_sub(1000)", ".checked_sub(1200)"),
 ("c05-shift6", ["C05"], "src/decoder/adsb/altitude.rs", "_ => ((((code >> 7) << 4) | ((code >> 2) & 0b1111)) as u32 * 25)", "_ => ((((code >> 6) << 4) | ((code >> 2) & 0b1111)) as u32 * 25)"),
 ("c05-ac13-for-df17", ["C05"], "src/decoder/adsb/altitude.rs", "17 => me_code(message),", "99 => me_code(message),"),
 ("c05-no-guard", ["C05"], "src/decoder/adsb/altitude.rs", "if a < 100000 {", "if a < 10000 {"),
 ("c05-alt-from-df0", ["C05", "C11"], "src/decoder/downlink/short.rs", "                4 => {\n                    self.altitude", "                0 | 4 => {\n                    self.altitude"),
 ("c06-swap-b2d2", ["C06"], "src/decoder/adsb/squawk.rs", "((((code >> 3) & 1) << 2) | (((code >> 5) & 1) << 1) | ((code >> 7) & 1)) as u32 * 100", "((((code >> 3) & 1) << 2) | (((code >> 4) & 1) << 1) | ((code >> 7) & 1)) as u32 * 100"),
 ("c06-df4-writes-squawk", ["C06", "C11"], "src/decoder/plane/from_squitter/from_bcast.rs", "if df == 5 || df == 21 {", "if df == 5 || df == 21 || df == 16 {"),
 ("c06-skip-df21-U", ["C06"], "src/decoder/plane/from_squitter/from_bcast.rs", "if df == 5 || df == 21 {", "if df == 5 {"),
 ("c13-break-empty", ["C13", "C01"], "src/reader.rs", "        let Some(message) = get_message(&line) else {\n            continue;", "        if line.is_empty() {\n            break;\n        }\n        let Some(message) = get_message(&line) else {\n            continue;"),
 ("c13-cap-length", ["C13"], "src/reader.rs", "        let line = String::from_utf8_lossy(&line);", "        if line.len() > 65_000 {\n            break;\n        }\n        let line = String::from_utf8_lossy(&line);"),
 ("c13-three-rejects", ["C13", "C01"], "src/reader.rs", "        let Some(message) = get_message(&line) else {\n            continue;", "        let Some(message) = get_message(&line) else {\n            rejects += 1;\n            if rejects > 3 {\n                break;\n            }\n            continue;"),
 ("c17-us-prefix", ["C17"], "src/decoder/country/country_icao_mask.rs", '0b1010 => ("United States", "US"),', '0b1011 => ("United States", "US"),'),
 ("c17-ireland", ["C17"], "src/decoder/country/country_icao_mask.rs", '0b010011001010 => ("Ireland", "IE"),', '0b010011001011 => ("Ireland", "IE"),'),
 ("c17-default", ["C17"], "src/decoder/country/country_icao_mask.rs", '_ => ("UFO", "??"),', '_ => ("UFO", ""),'),
 ("c07-straddle-shift", ["C07"], "src/decoder/adsb/ais.rs", "(((message[14] & 3) << 4) | message[15]),", "(((message[14] & 1) << 4) | message[15]),"),
 ("c07-map-27", ["C07"], "src/decoder/adsb/ais.rs", "1..=26 => char::from_u32(ch | 64).unwrap_or(' '),", "1..=27 => char::from_u32(ch | 64).unwrap_or(' '),"),
 ("c07-wake-46", ["C07"], "src/decoder/adsb/icao.rs", "(4, 7) => Some('R'),", "(4, 6) => Some('R'),"),
 ("c07-cat-tc-only", ["C07"], "src/decoder/plane/from_downlink/from_ext.rs", "self.category = dl.message_type;", "self.category = (dl.message_type.0, self.category.1);"),
 ("c07-bds20-ungated", ["C07", "C10"], "src/decoder/plane/from_squitter.rs", "if (relaxed || (self.capability.0 > 3)) && (df == 20 || df == 21) {", "if (relaxed || (self.capability.0 > 2)) && (df == 20 || df == 21) {"),
 ("c09-swap-ew-ns", ["C09"], "src/decoder/ehs/base.rs", "let track = (((sp_west as f64).atan2(sp_south)", "let track = (((sp_south as f64).atan2(sp_west)"),
 ("c09-ceil", ["C09"], "src/decoder/ehs/base.rs", ".atan2(sp_south).to_degrees().floor()", ".atan2(sp_south).to_degrees().ceil()"),
 ("c09-sign-ignored", ["C09"], "src/decoder/ehs/base.rs", "Some((dir_south, speed_south)) => match dir_south & 1 {", "Some((dir_south, speed_south)) => match dir_south & 2 {"),
 ("c09-vr-shift5", ["C09"], "src/decoder/adsb/vertical_rate.rs", "let value = ((value - 1) << 6) as i32;", "let value = ((value - 1) << 5) as i32;"),
 ("c09-default-path-lost", ["C09", "C19"], "src/decoder/plane/from_downlink/from_ext.rs", "            1 => {\n                (self.track, self.grspeed) = (dl.track, dl.grspeed);", "            1 => {\n                (self.track, self.grspeed) = (dl.track, self.grspeed);"),
 ("c09-supersonic-x2", ["C09"], "src/decoder/ehs/base.rs", "if is_supersonic { x * 4 }", "if is_supersonic { x * 2 }"),
 ("c09-gs-round", ["C09"], "src/decoder/ehs/base.rs", ".sqrt().floor() as u32", ".sqrt().round() as u32"),
 ("c09-vr-U-only-first", ["C09"], "src/decoder/plane/from_squitter/from_ext.rs", "        self.vrate = decoder::vertical_rate(message);\n        self.vrate_source = ' ';", "        self.vrate = self.vrate.or(decoder::vertical_rate(message));\n        self.vrate_source = ' ';"),
 ("c08-nl-table-off", ["C08"], "src/decoder/adsb/position.rs", "(29.91135686, 52),", "(29.91135686, 51),"),
 ("c08-mod60-odd", ["C08"], "src/decoder/adsb/position.rs", "fixed_lat(adl1 * ((j % 59.0) + (cpr_lat[1] as f64 / div))),", "fixed_lat(adl1 * ((j % 60.0) + (cpr_lat[1] as f64 / div))),"),
 ("c08-no-signed-lon", ["C08"], "src/decoder/adsb/position.rs", "Some((rlat[cpr_form as usize], signed_lon(lon)))", "Some((rlat[cpr_form as usize], lon))"),
 ("c08-le-10", ["C08"], "src/decoder/plane/update_position.rs", "                < 10\n", "                <= 10\n"),
 ("c08-older-form", ["C08"], "src/decoder/adsb/position.rs", "Some((rlat[cpr_form as usize], signed_lon(lon)))", "Some((rlat[1 - cpr_form as usize], signed_lon(lon)))"),
 ("c08-no-zero-guard", ["C08"], "src/decoder/plane/update_position.rs", "        if self.cpr_lat[0] != 0\n            && self.cpr_lat[1] != 0", "        if self.cpr_lat[0] != 0"),
 ("c08-no-abs", ["C08"], "src/decoder/plane/update_position.rs", "                .num_seconds()\n                .abs()", "                .num_seconds()"),
 ("c08-earth-radius", ["C08"], "src/decoder/plane/update_position.rs", "let r = 6371.0;", "let r = 6378.0;"),
 ("c08-observer-swap", ["C08"], "src/decoder/observer.rs", "Ok(Coordinates { lat, lon })", "Ok(Coordinates { lat: lon, lon: lat })"),
 ("c08-default-path-stale-time", ["C08", "C12"], "src/decoder/plane/from_downlink.rs", "        self.timestamp = chrono::Utc::now();\n", ""),
 ("c08-nl-boundary-87", ["C08"], "src/decoder/adsb/position.rs", "(86.53536998, 3),", "(86.33536998, 3),"),
 ("c10-gate-ca2", ["C10"], "src/decoder/plane/from_squitter.rs", "self.capability.0 > 3", "self.capability.0 > 2"),
 ("c10-ignore-adv50", ["C10"], "src/decoder/plane/from_squitter/from_mode_s.rs", "if bds == (0, 0) && (relaxed || self.capability.1.bds50) {", "if bds == (0, 0) {"),
 ("c10-drop-status-50", ["C10"], "src/decoder/bds/bds_5_0.rs", "        || !goodflags(message, 67, 68, 77)\n", ""),
 ("c10-roll-plus90", ["C10"], "src/decoder/ehs/bds_5_0.rs", "_ => value - 90,", "_ => 90 - value,"),
 ("c10-baro-700", ["C10"], "src/decoder/ehs/bds_4_0.rs", "Some(value / 10 + 800)", "Some(value / 10 + 700)"),
 ("c10-50-before-40", ["C10"], "src/decoder/bds/bds_4_0.rs", "        || decoder::goodflags(message, 33, 84, 85)\n", ""),
 ("c10-neg-rate-rejected", ["C10"], "src/decoder/bds/bds_5_0.rs", "(-16..=16).contains(x)", "(0..=16).contains(x)"),
 ("c10-neg-vrate-60", ["C10"], "src/decoder/bds/bds_6_0.rs", ".is_some_and(|x| (-6000..=6000).contains(&x))\n                || bds60.barometric_altitude_rate.is_none())", ".is_some_and(|x| (0..=6000).contains(&x))\n                || bds60.barometric_altitude_rate.is_none())"),
 ("c10-mach-scale", ["C10"], "src/decoder/ehs/bds_6_0.rs", "v.1 as f64 * 0.004", "v.1 as f64 * 0.008"),
 ("c10-gs-shift", ["C10"], "src/decoder/ehs/bds_5_0.rs", "        .filter(|&f| f.0 == 1)\n        .map(|v| v.1 << 1)\n}\n\npub(crate) fn true_airspeed_5_0", "        .filter(|&f| f.0 == 1)\n        .map(|v| v.1 << 2)\n}\n\npub(crate) fn true_airspeed_5_0"),
 ("c10-17-reserved-loose", ["C10"], "src/decoder/bds/bds_1_7.rs", "decoder::flag_and_range_value(message, 39, 61, 88)?", "decoder::flag_and_range_value(message, 39, 65, 88)?"),
 ("c10-adv60-wrong-bit", ["C10"], "src/decoder/bds/bds_1_7.rs", "        (capability & 1) == 1,", "        (capability & 2) == 2,"),
 ("c10-heading-sign", ["C10"], "src/decoder/ehs/bds_6_0.rs", "_ => heading + 180,", "_ => heading + 90,"),
 ("c10-relaxed-ignored-40", ["C10"], "src/decoder/plane/from_squitter/from_mode_s.rs", "if bds == (0, 0) && (relaxed || self.capability.1.bds40) {", "if bds == (0, 0) && self.capability.1.bds40 {"),
 ("c10-40-reserved-unchecked", ["C10"], "src/decoder/bds/bds_4_0.rs", "        || decoder::goodflags(message, 33, 72, 79)\n", ""),
 ("c11-tc19-clears-callsign", ["C11"], "src/decoder/plane/from_squitter/from_ext.rs", "        self.vrate = decoder::vertical_rate(message);\n        self.vrate_source = ' ';", "        self.vrate = decoder::vertical_rate(message);\n        self.ais = None;\n        self.vrate_source = ' ';"),
 ("c11-surface-keeps-alt", ["C11"], "src/decoder/plane/from_downlink/from_ext.rs", "        self.ground_movement = dl.ground_movement;\n        self.altitude = dl.altitude;", "        self.ground_movement = dl.ground_movement;"),
 ("c11-forget-ss-U", ["C11", "C19"], "src/decoder/plane/from_squitter/from_ext.rs", "        self.altitude_source = ' ';\n        self.surveillance_status = decoder::surveillance_status(message);\n        self.update_cpr", "        self.altitude_source = ' ';\n        self.update_cpr"),
 ("c11-df5-clears-alt", ["C11"], "src/decoder/plane/from_downlink/from_srt.rs", "                self.squawk = dl.squawk;", "                self.squawk = dl.squawk;\n                self.altitude = None;"),
 ("c11-version-from-tc29", ["C11"], "src/decoder/downlink/extended/update.rs", "                31 => {\n                    self.update_mt_31(message);", "                29 | 31 => {\n                    self.update_mt_31(message);"),
 ("c11-ident-default-skips-category", ["C11", "C07"], "src/decoder/plane/from_downlink/from_ext.rs", "            self.category = dl.message_type;", "            if self.category == (0, 0) {\n                self.category = dl.message_type;\n            }"),
 ("c11-df20-alt-only-first", ["C11", "C05"], "src/decoder/plane/from_squitter/from_bcast.rs", "            self.altitude = decoder::altitude(message, df);", "            self.altitude = self.altitude.or(decoder::altitude(message, df));"),
 ("c11-df11-resets-squawk", ["C11", "C06"], "src/decoder/plane/from_downlink/from_srt.rs", "                    self.capability.0 = v;", "                    self.capability.0 = v;\n                    if v == 0 {\n                        self.squawk = None;\n                    }"),
 ("c11-refeed-toggles", ["C11"], "src/decoder/plane/from_squitter/from_ext.rs", "        self.adsb_version = decoder::version(message);", "        self.adsb_version = if self.adsb_version == decoder::version(message) { None } else { decoder::version(message) };"),
 ("c10-40-fms-status-dropped", ["C10"], "src/decoder/bds/bds_4_0.rs", "        || !decoder::goodflags(message, 46, 47, 58)\n", ""),
 ("c12-sweep-110", ["C12"], "src/decoder/planes.rs", "if app_state.cleanup_count > 10 {", "if app_state.cleanup_count > 110 {"),
 ("c12-le", ["C12"], "src/decoder/planes.rs", "if elapsed < delete_after {", "if elapsed <= delete_after {"),
 ("c12-refresh-only-df17", ["C12"], "src/decoder/plane/from_downlink.rs", "        self.timestamp = chrono::Utc::now();\n        match dl {", "        if matches!(dl, DF::EXT(_)) {\n            self.timestamp = chrono::Utc::now();\n        }\n        match dl {"),
 ("c12-expire-on-position-ts", ["C12"], "src/decoder/planes.rs", "let elapsed = now.signed_duration_since(plane.timestamp).num_seconds();", "let elapsed = now.signed_duration_since(plane.position_timestamp.unwrap_or(plane.timestamp)).num_seconds();"),
 ("c12-never-reset-count", ["C12"], "src/counters.rs", "    pub(crate) fn reset_cleanup_count(&mut self) {\n        self.cleanup_count = 0;", "    pub(crate) fn reset_cleanup_count(&mut self) {\n        self.cleanup_count = self.cleanup_count;"),
 ("c12-filtered-frames-refresh", ["C12", "C16"], "src/reader.rs", "        if let Some(only) = &args.filter {\n            if only.iter().all(|&x| x != df) {\n                continue;\n            }\n        }\n", "        if let Some(only) = &args.filter {\n            if only.iter().all(|&x| x != df) {\n                if let Ok(mut p) = planes.aircrafts.write() {\n                    if let Some(pl) = p.get_mut(&icao) {\n                        pl.timestamp = chrono::Utc::now();\n                    }\n                }\n                continue;\n            }\n        }\n"),
 ("c12-U-path-no-refresh-df11", ["C12"], "src/decoder/plane/from_squitter.rs", "        self.timestamp = Utc::now();\n", "        if df != 11 {\n            self.timestamp = Utc::now();\n        }\n"),
 ("c12-retain-with-squawk", ["C12"], "src/decoder/planes.rs", "                    if elapsed < delete_after {", "                    if elapsed < delete_after || plane.squawk == Some(7700) {"),
 ("c12-stale-row-reused", ["C12"], "src/decoder/planes.rs", "                    if elapsed < delete_after {\n                        true", "                    if elapsed < delete_after || elapsed < 2 * delete_after && plane.ais.is_some() {\n                        true"),
 ("c16-count-before-filter", ["C16"], "src/reader.rs", "        if let Some(only) = &args.filter {\n            if only.iter().all(|&x| x != df) {\n                continue;\n            }\n        }\n\n        if args.count_df {\n            app_state.update_count(df);\n        }\n", "        if args.count_df {\n            app_state.update_count(df);\n        }\n\n        if let Some(only) = &args.filter {\n            if only.iter().all(|&x| x != df) {\n                continue;\n            }\n        }\n"),
 ("c16-count-zero-address", ["C16"], "src/reader.rs", "        let Some(icao) = get_icao(&message, df) else {\n            continue;\n        };", "        let Some(icao) = get_icao(&message, df) else {\n            if args.count_df {\n                app_state.update_count(df);\n            }\n            continue;\n        };"),
 ("c16-filter-mod16", ["C16"], "src/reader.rs", "if only.iter().all(|&x| x != df) {", "if only.iter().all(|&x| x % 16 != df % 16) {"),
 ("c16-start-at-one", ["C16"], "src/counters.rs", ".or_insert(0) += 1;", ".or_insert(1) += 1;"),
 ("c16-line-without-c", ["C16"], "src/reader.rs", "    if args.count_df {\n        app_state.print_df_count_line();", "    if args.count_df || args.filter.is_some() {\n        app_state.print_df_count_line();"),
 ("c16-count-saturates", ["C16"], "src/counters.rs", "        *self.df_count.entry(df).or_insert(0) += 1;", "        let e = self.df_count.entry(df).or_insert(0);\n        if *e < 9 {\n            *e += 1;\n        }"),
 ("c16-hashmap-order", ["C16"], "src/counters.rs", ".fold(String::new(), |acc, (df, count)| {\n                    acc + &format!(\"DF{}:{} \", df, count)", ".rev()\n                .fold(String::new(), |acc, (df, count)| {\n                    acc + &format!(\"DF{}:{} \", df, count)"),
 ("c14-tas-width4", ["C14"], "src/decoder/plane/simple_display.rs", "            if let Some(tas) = self.true_airspeed {\n                write!(f, \"{:>3} \", tas)?;", "            if let Some(tas) = self.true_airspeed {\n                write!(f, \"{:>4} \", tas)?;"),
 ("c14-swap-ias-tas", ["C14"], "src/decoder/plane/simple_display.rs", "if let Some(ias) = self.indicated_airspeed {", "if let Some(ias) = self.true_airspeed.and(self.indicated_airspeed).and(self.true_airspeed).or(self.indicated_airspeed) {"),
 ("c14-angles-without-flag", ["C14"], "src/decoder/plane/simple_display.rs", "        if display_flags.angles() {", "        if display_flags.angles() || display_flags.speed() {"),
 ("c14-left-align-alt", ["C14"], "src/decoder/plane/simple_display.rs", "            write!(f, \"{:>5}\", altitude)?;\n            write!(f, \"{}\", self.altitude_source)?;", "            write!(f, \"{:<5}\", altitude)?;\n            write!(f, \"{}\", self.altitude_source)?;"),
 ("c14-no-sep-after-baro", ["C14"], "src/decoder/plane/simple_display.rs", "                write!(f, \"{:>4} \", value)?;\n            } else {\n                write!(f, \"{:4} \", \"\")?;", "                write!(f, \"{:>4}\", value)?;\n            } else {\n                write!(f, \"{:4} \", \"\")?;"),
 ("c14-header-order", ["C14"], "src/decoder/plane/header.rs", "headers.extend([(\"TAS\", 3), (\"IAS\", 3), (\"MACH\", 4)]);", "headers.extend([(\"IAS\", 3), (\"TAS\", 3), (\"MACH\", 4)]);"),
 ("c14-temp-precision", ["C14"], "src/decoder/plane/simple_display.rs", "write!(f, \"{:>5.1} \", temperature)?;", "write!(f, \"{:>5.0} \", temperature)?;"),
 ("c14-lat-only-shown", ["C14"], "src/decoder/plane/simple_display.rs", "        if self.lat != 0.0 && self.lon != 0.0 {\n            write!(f, \"{:9.5} {:11.5} \", self.lat, self.lon)?;", "        if self.lat != 0.0 || self.lon != 0.0 {\n            write!(f, \"{:9.5} {:11.5} \", self.lat, self.lon)?;"),
 ("c14-neg-vrate-abs", ["C14"], "src/decoder/plane/simple_display.rs", "            write!(f, \"{:>5}\", vrate)?;", "            write!(f, \"{:>5}\", vrate.abs())?;"),
 ("c14-footer-missing", ["C14"], "src/reader.rs", "    planes.print(args, display_flags);\n\n    headers.print_separator();", "    planes.print(args, display_flags);\n\n    if !args.count_df {\n        headers.print_separator();\n    }"),
 ("c14-weather-flag-extra", ["C14"], "src/decoder/plane/header.rs", "            display_flags_vec.contains(&'w'),", "            display_flags_vec.contains(&'w') || display_flags_vec.contains(&'x'),"),
 ("c14-blank-squawk-zero", ["C14"], "src/decoder/plane/simple_display.rs", "        if let Some(squawk) = self.squawk {", "        if let Some(squawk) = self.squawk.filter(|s| *s != 0) {"),
 ("c15-no-address-presort", ["C15"], "src/decoder/planes.rs", "        planes_vector.sort_by_cached_key(|&(k, _)| k);\n", ""),
 ("c15-A-no-reverse", ["C15"], "src/decoder/planes.rs", "                'A' => {\n                    planes_vector.sort_by_cached_key(|&(_, p)| p.altitude);\n                    planes_vector.reverse();", "                'A' => {\n                    planes_vector.sort_by_cached_key(|&(_, p)| p.altitude);"),
 ("c15-W-by-lat", ["C15"], "src/decoder/planes.rs", "planes_vector.sort_by(|&(_, a), &(_, b)| a.lon.total_cmp(&b.lon));", "planes_vector.sort_by(|&(_, a), &(_, b)| a.lat.total_cmp(&b.lat));"),
 ("c15-dedupe-by-squawk", ["C15"], "src/decoder/planes.rs", "        sort_printed_planes(args, &mut planes_vector);\n", "        sort_printed_planes(args, &mut planes_vector);\n        planes_vector.dedup_by_key(|(_, p)| (p.squawk, p.altitude, p.ais.clone()));\n"),
 ("c15-i32-keys", ["C15"], "src/decoder/planes.rs", "planes_vector.sort_by(|&(_, a), &(_, b)| a.lat.total_cmp(&b.lat));", "planes_vector.sort_by_cached_key(|&(_, p)| p.lat as i32);"),
 ("c15-first-letter-wins", ["C15"], "src/decoder/planes.rs", "        for c in order_by.chars() {", "        for c in order_by.chars().rev() {"),
 ("c15-squawk-desc", ["C15"], "src/decoder/planes.rs", "planes_vector.sort_by_cached_key(|&(_, p)| p.squawk);", "planes_vector.sort_by_cached_key(|&(_, p)| std::cmp::Reverse(p.squawk));"),
 ("c15-dist-trunc", ["C15"], "src/decoder/planes.rs", "                'd' => {\n                    planes_vector.sort_by(|&(_, a), &(_, b)| {\n                        (a.distance_from_observer.unwrap_or(0.0))\n                            .total_cmp(&b.distance_from_observer.unwrap_or(0.0))\n                    });", "                'd' => {\n                    planes_vector.sort_by_cached_key(|&(_, p)| p.distance_from_observer.unwrap_or(0.0) as i32);"),
 ("c19-quiet-skips-cleanup-update", ["C19"], "src/reader.rs", "            planes.update_aircraft(&downlink, &message, df, icao, args);\n            planes.cleanup(&mut app_state, now, args.delete_after);", "            if !display_flags.quiet() || df != 5 {\n                planes.update_aircraft(&downlink, &message, df, icao, args);\n            }\n            planes.cleanup(&mut app_state, now, args.delete_after);"),
 ("c19-c-consumes-frame", ["C19", "C16"], "src/reader.rs", "        if args.count_df {\n            app_state.update_count(df);\n        }", "        if args.count_df {\n            app_state.update_count(df);\n            if df == 16 {\n                continue;\n            }\n        }"),
 ("c19-downlink-log-error-stops", ["C19"], "src/reader.rs", "                downlink.log(downlink_error_log_file)?;", "                downlink.log(downlink_error_log_file)?;\n                if df == 0 {\n                    continue;\n                }"),
 ("c19-M-filters", ["C19"], "src/reader.rs", "            if m.contains(&df) {\n                error!(\"DF:{}, L:{}\", df, line);\n            }", "            if m.contains(&df) {\n                error!(\"DF:{}, L:{}\", df, line);\n                if df == 11 {\n                    continue;\n                }\n            }"),
 ("c19-observer-affects-position", ["C19", "C08"], "src/decoder/plane/update_position.rs", "                    if let Some(observer) = decoder::observer::get_observer_coords() {", "                    if let Some(observer) = decoder::observer::get_observer_coords().filter(|o| o.0 > -70.0) {"),
 ("c19-U-callsign-needs-cat", ["C19", "C07", "C11"], "src/decoder/plane/from_squitter/from_ext.rs", "        self.ais = decoder::ais(message);\n        self.category = (message_type, message_subtype);", "        if message_subtype != 0 {\n            self.ais = decoder::ais(message);\n        }\n        self.category = (message_type, message_subtype);"),
 ("c19-update-interval-drops", ["C19"], "src/reader.rs", "        if !display_flags.quiet() && app_state.is_time_to_refresh(&now, args.update) {", "        if args.update == 0 && df == 4 {\n            planes.aircrafts.write().unwrap().remove(&icao);\n        }\n        if !display_flags.quiet() && app_state.is_time_to_refresh(&now, args.update) {"),
 ("c19-U-vrate-sign", ["C19", "C09"], "src/decoder/plane/from_squitter/from_ext.rs", "        self.vrate = decoder::vertical_rate(message);\n        self.vrate_source = ' ';", "        self.vrate = decoder::vertical_rate(message).map(|v| if v == -64 { 64 } else { v });\n        self.vrate_source = ' ';"),
 ("c18-break-on-read-error", ["C18"], "src/reader.rs", "                if let Err(e) = read_lines(reader, &args, planes) {\n                    error!(\"Error during reading: {}\", e);\n                    sleep(Duration::from_secs(5));\n                }", "                if let Err(e) = read_lines(reader, &args, planes) {\n                    error!(\"Error during reading: {}\", e);\n                    sleep(Duration::from_secs(5));\n                }\n                break Ok(());"),
 ("c18-return-on-refused", ["C18"], "src/reader.rs", "            Err(e) => {\n                error!(\"Failed to connect to {}: {}\", &args.tcp, e);\n                sleep(Duration::from_secs(5));", "            Err(e) => {\n                error!(\"Failed to connect to {}: {}\", &args.tcp, e);\n                return Err(e);"),
 ("c18-new-planes-per-connection", ["C18"], "src/reader.rs", "                let reader = BufReader::new(stream);\n                if let Err(e) = read_lines(reader, &args, planes) {", "                let reader = BufReader::new(stream);\n                *planes = Planes::new();\n                if let Err(e) = read_lines(reader, &args, planes) {"),
 ("c18-no-sleep", ["C18"], "src/reader.rs", "                error!(\"Failed to connect to {}: {}\", &args.tcp, e);\n                sleep(Duration::from_secs(5));", "                error!(\"Failed to connect to {}: {}\", &args.tcp, e);\n                sleep(Duration::from_millis(5));"),
 ("c18-lines-utf8-strict", ["C18", "C13"], "src/reader.rs", "    for line in reader.split(b'\\n').map_while(Result::ok) {\n        let line = String::from_utf8_lossy(&line);", "    for line in reader.lines().map_while(Result::ok) {"),
 ("c18-giveup-after-3", ["C18"], "src/reader.rs", "fn connect_and_read_tcp(args: Arc<Args>, planes: &mut Planes) -> Result<()> {\n    loop {", "fn connect_and_read_tcp(args: Arc<Args>, planes: &mut Planes) -> Result<()> {\n    for _ in 0..3 {"),
]
# mutants needing a second edit
EXTRA0 = {
 "c18-giveup-after-3": ("src/reader.rs", "                sleep(Duration::from_secs(5));\n            }\n        }\n    }\n}", "                sleep(Duration::from_secs(5));\n            }\n        }\n    }\n    Ok(())\n}"),
}
EXTRA = {
 "c13-three-rejects": ("src/reader.rs", "    let mut app_state = AppCounters::from_update_interval(args.update);", "    let mut app_state = AppCounters::from_update_interval(args.update);\n    let mut rejects = 0;"),
}

EXTRA.update(EXTRA0)

def sh(cmd, **kw):
    return subprocess.run(cmd, shell=True, capture_output=True, text=True, **kw)

def restore():
    sh(f"git -C {REPO} checkout -- . && git -C {REPO} clean -fdq src")

def main():
    sel = sys.argv[1:]
    os.makedirs(os.path.join(ROOT, "mutants"), exist_ok=True)
    rows = []
    assert sh(f"git -C {REPO} status --porcelain").stdout.strip() == "", "repo not clean"
    for name, props, f, old, new in M:
        if sel and not any(s in name for s in sel):
            continue
        path = os.path.join(REPO, f)
        src = open(path).read()
        if src.count(old) < 1:
            rows.append((name, "STALE", "", "")); print(name, "STALE: pattern not found"); continue
        open(path, "w").write(src.replace(old, new, 1))
        if name in EXTRA:
            f2, o2, n2 = EXTRA[name]
            p2 = os.path.join(REPO, f2); s2 = open(p2).read(); assert o2 in s2; open(p2, "w").write(s2.replace(o2, n2, 1))
        diff = sh(f"git -C {REPO} diff").stdout
        open(os.path.join(ROOT, "mutants", name + ".diff"), "w").write(diff)
        t = sh(f"cd {REPO} && cargo test --offline 2>&1 | grep -E '^test result|^error' | head -3").stdout
        tests_ok = "66 passed" in t and "FAILED" not in t and "error" not in t
        res = []
        for p in props:
            r = sh(f"cd {ROOT} && ./check {p} quick")
            res.append(f"{p}:{r.returncode}")
        restore()
        rows.append((name, "tests-pass" if tests_ok else "TESTS-FAIL/NO-BUILD", " ".join(res), ""))
        print(name, rows[-1][1], " ".join(res), flush=True)
    with open(os.path.join(ROOT, "mutants", "RESULTS.tsv"), "a") as fh:
        for r in rows:
            fh.write("\t".join(r) + "\n")

if __name__ == "__main__":
    try:
        main()
    finally:
        restore()
