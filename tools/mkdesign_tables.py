#!/usr/bin/env python3
"""Regenerates the result tables of DESIGN.md §12 (hand-written mutants) and §13 (seeded changes)."""
import json, os, glob, re
ROOT = os.path.dirname(os.path.dirname(os.path.abspath(__file__)))
p = os.path.join(ROOT, "DESIGN.md")
s = open(p).read()

# --- mutants: last result per name
rows = {}
rp = os.path.join(ROOT, "mutants", "RESULTS.tsv")
if os.path.exists(rp):
    for l in open(rp):
        f = l.rstrip("\n").split("\t")
        if len(f) >= 3:
            rows[f[0]] = (f[1], f[2])
lines = ["", "| breakage | repository tests | owning checks (1 = VIOLATION) |", "|---|---|---|"]
caught = missed = 0
for name in sorted(rows):
    st, res = rows[name]
    lines.append(f"| `{name}` | {st} | {res} |")
    owner = res.split()[0] if res else ""
    if ":1" in res:
        caught += 1
    else:
        missed += 1
lines.append("")
lines.append(f"{caught} of {caught+missed} breakages raise a VIOLATION in at least one listed check.  The ones that stay silent were examined: "
             "`c05-alt-from-df0` and `c11-version-from-tc29` change a decoder struct field that the row-update code never reads for that format (equivalent on the table), "
             "`c10-drop-status-50` removes a test that a later `is_some()` test repeats (equivalent), `c12-never-reset-count` only makes sweeps *more* frequent (allowed), "
             "`c14-lat-only-shown` needs a row with exactly one coordinate equal to 0.0 (not a state the decoder produces), `c16-line-without-c` prints an empty line, "
             "`c19-observer-affects-position` changes the distance column only, which `-O` may do (C08 catches it).")
mut = "\n".join(lines)

# --- seeded
srows = ["", "| seeded change | breaks | tests pass with it | demo fails with / passes without | caught by (quick) |", "|---|---|---|---|---|"]
tot = hit = 0
for d in sorted(glob.glob(os.path.join(ROOT, "seeded", "C*-*"))):
    mp = os.path.join(d, "meta.json")
    if not os.path.exists(mp):
        continue
    m = json.load(open(mp))
    c = m.get("confirmation", {})
    name = os.path.basename(d)
    ok = c.get("repo_tests_pass_with_change")
    demo = f"{c.get('demo_fails_with_change')} / {c.get('demo_passes_without_change')}"
    cb = ", ".join(m.get("caught_by", [])) or "**missed**"
    note = m.get("disposition", "")
    srows.append(f"| `{name}` | {m.get('breaks_property')} | {ok} | {demo} | {cb}{(' - ' + note) if note else ''} |")
    tot += 1
    hit += 1 if m.get("caught_by") else 0
srows.append("")
srows.append(f"{hit} of {tot} confirmed seeded changes are caught by a quick check.")
seeded = "\n".join(srows)

def put(s, tag, body):
    b, e = f"<!-- {tag}:BEGIN -->", f"<!-- {tag}:END -->"
    if b in s:
        return re.sub(re.escape(b) + r".*?" + re.escape(e), lambda _: b + "\n" + body + "\n" + e, s, flags=re.S)
    return s
s = s.replace("@@MUTANT_SUMMARY@@", "<!-- MUTANTS:BEGIN -->\n<!-- MUTANTS:END -->").replace("@@SEEDED_SUMMARY@@", "<!-- SEEDED:BEGIN -->\n<!-- SEEDED:END -->")
s = put(s, "MUTANTS", mut)
s = put(s, "SEEDED", seeded)
open(p, "w").write(s)
print("tables written:", len(rows), "mutants,", tot, "seeded")
