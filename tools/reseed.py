#!/usr/bin/env python3
"""Re-runs the owning quick check against every kept seeded change (seeded/<name>/patch.diff) with the current
machinery: apply the patch to /repo, ./check <owner> quick, restore.  Where the owner does not alarm, the checks that
caught the change before are run as well.  Updates meta.json (checks, caught_by, rechecked).
Usage: tools/reseed.py [name-prefix ...]     e.g. tools/reseed.py C05 C11-2"""
import json, os, subprocess, sys, glob, time
ROOT = os.path.dirname(os.path.dirname(os.path.abspath(__file__)))
REPO = "/repo"

def sh(cmd, cwd=None, timeout=3600):
    return subprocess.run(cmd, shell=True, cwd=cwd, capture_output=True, text=True, timeout=timeout)

def main():
    pref = [a for a in sys.argv[1:] if not a.startswith("--")]
    head = sh("git rev-parse --short HEAD", cwd=ROOT).stdout.strip()
    dirs = sorted(glob.glob(os.path.join(ROOT, "seeded", "C*")))
    for d in dirs:
        name = os.path.basename(d)
        if pref and not any(name.startswith(p) for p in pref):
            continue
        mp = os.path.join(d, "meta.json")
        patch = os.path.join(d, "patch.diff")
        if not (os.path.exists(mp) and os.path.exists(patch)):
            continue
        meta = json.load(open(mp))
        owner = meta.get("breaks_property", name[:3])
        assert sh(f"git -C {REPO} status --porcelain").stdout.strip() == "", "/repo not clean"
        a = sh(f"git -C {REPO} apply {patch}")
        if a.returncode != 0:
            print(name, "patch does not apply", flush=True)
            continue
        old = dict(meta.get("checks", {}))
        results = dict(old)
        try:
            order = [owner] + [c for c, v in sorted(old.items()) if v == 1 and c != owner]
            for i, c in enumerate(order):
                r = sh(f"./check {c} quick", cwd=ROOT)
                results[c] = r.returncode
                if r.returncode == 1:
                    det = [l for l in r.stdout.splitlines() if l.strip().startswith("detail:")]
                    meta.setdefault("details", {})[c] = det[0][:400] if det else ""
                if i == 0 and r.returncode == 1:
                    break
        finally:
            sh(f"git -C {REPO} checkout -- . && git -C {REPO} clean -fdq src tests")
        meta["checks"] = results
        meta["caught_by"] = sorted([c for c, v in results.items() if v == 1])
        meta["rechecked"] = f"owner check re-run at /verif commit {head}"
        json.dump(meta, open(mp, "w"), indent=1)
        flag = "" if results.get(owner) == 1 else ("  <-- owner silent" + ("" if "disposition" in meta else " (no disposition)"))
        print(name, "owner", owner, "=", results.get(owner), "was", old.get(owner), flag, flush=True)

if __name__ == "__main__":
    try:
        main()
    finally:
        sh(f"git -C {REPO} checkout -- . ")
