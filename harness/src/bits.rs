//! Mode S frames as bit vectors, the reference CRC-24 and the frame builders.
//! Written from ICAO Annex 10 Vol. IV; never calls the code under test.

use serde::{Deserialize, Serialize};

pub const GENERATOR: u32 = 0x1FFF409; // 25-bit Mode S generator polynomial

/// A 56- or 112-bit frame; bit 1 is the first bit on the air (MSB of the first byte).
#[derive(Clone, Copy, PartialEq, Eq, Hash)]
pub struct Frame {
    pub bits: u128,
    pub len: u32,
}

impl std::fmt::Debug for Frame {
    fn fmt(&self, f: &mut std::fmt::Formatter<'_>) -> std::fmt::Result {
        write!(f, "{}", self.hex())
    }
}
impl Serialize for Frame {
    fn serialize<S: serde::Serializer>(&self, s: S) -> Result<S::Ok, S::Error> {
        s.serialize_str(&self.hex())
    }
}
impl<'de> Deserialize<'de> for Frame {
    fn deserialize<D: serde::Deserializer<'de>>(d: D) -> Result<Frame, D::Error> {
        let s = String::deserialize(d)?;
        Frame::from_hex(&s).ok_or_else(|| serde::de::Error::custom("bad frame hex"))
    }
}

impl Frame {
    pub fn new(len: u32) -> Frame {
        assert!(len == 56 || len == 112);
        Frame { bits: 0, len }
    }
    pub fn short() -> Frame {
        Frame::new(56)
    }
    pub fn long() -> Frame {
        Frame::new(112)
    }
    /// field made of bits `sb..=eb` (1-based, inclusive)
    pub fn get(&self, sb: u32, eb: u32) -> u64 {
        debug_assert!(sb >= 1 && eb >= sb && eb <= self.len && eb - sb < 64);
        let width = eb - sb + 1;
        let shift = self.len - eb;
        ((self.bits >> shift) & ((1u128 << width) - 1)) as u64
    }
    pub fn set(&mut self, sb: u32, eb: u32, v: u64) {
        debug_assert!(sb >= 1 && eb >= sb && eb <= self.len && eb - sb < 64);
        let width = eb - sb + 1;
        let shift = self.len - eb;
        let mask = ((1u128 << width) - 1) << shift;
        self.bits = (self.bits & !mask) | (((v as u128) << shift) & mask);
    }
    pub fn with(mut self, sb: u32, eb: u32, v: u64) -> Frame {
        self.set(sb, eb, v);
        self
    }
    pub fn bit(&self, b: u32) -> u64 {
        self.get(b, b)
    }
    pub fn flip(&mut self, b: u32) {
        let shift = self.len - b;
        self.bits ^= 1u128 << shift;
    }
    pub fn df(&self) -> u32 {
        self.get(1, 5) as u32
    }
    pub fn hex(&self) -> String {
        let n = (self.len / 4) as usize;
        format!("{:0width$X}", self.bits, width = n)
    }
    pub fn from_hex(s: &str) -> Option<Frame> {
        let s = s.trim();
        if s.len() != 14 && s.len() != 28 {
            return None;
        }
        let bits = u128::from_str_radix(s, 16).ok()?;
        Some(Frame { bits, len: (s.len() * 4) as u32 })
    }
    /// CRC-24 remainder of the whole frame (zero for an intact DF17/18, IC for DF11,
    /// the address for address/parity formats)
    pub fn syndrome(&self) -> u32 {
        crc24_remainder(self.bits, self.len)
    }
    /// CRC-24 of the data part (all bits but the last 24), as transmitted in PI / XORed into AP
    pub fn data_crc(&self) -> u32 {
        crc24_remainder(self.bits >> 24 << 24, self.len)
    }
    /// write parity so that the frame is an intact squitter (PI = CRC ^ ic) or carries `addr` (AP = CRC ^ addr)
    pub fn seal(mut self, overlay: u32) -> Frame {
        let crc = self.data_crc();
        let l = self.len;
        self.set(l - 23, l, ((crc ^ overlay) & 0xFF_FFFF) as u64);
        self
    }
    /// the 24-bit address the frame is attributed to, by the rule of Annex 10 (C03)
    pub fn address(&self) -> u32 {
        match self.df() {
            11 | 17 | 18 => self.get(9, 32) as u32,
            _ => self.syndrome(),
        }
    }
}

/// Bit-serial polynomial division, MSB first: remainder of `bits` (len bits) modulo the generator.
pub fn crc24_remainder(bits: u128, len: u32) -> u32 {
    let mut reg: u32 = 0; // 24-bit register
    for i in (0..len).rev() {
        let inbit = ((bits >> i) & 1) as u32;
        let top = (reg >> 23) & 1;
        reg = ((reg << 1) & 0xFF_FFFF) | inbit;
        if top == 1 {
            reg ^= GENERATOR & 0xFF_FFFF;
        }
    }
    reg
}

/// `true` when the reference takes the frame as parity-valid under C04 (only DF11/17/18 are checked)
pub fn parity_ok(f: &Frame) -> bool {
    match f.df() {
        17 | 18 => f.syndrome() == 0,
        11 => f.syndrome() & 0xFF_FF80 == 0,
        _ => true,
    }
}

/// length agrees with DF (C02)
pub fn length_ok(f: &Frame) -> bool {
    (f.df() < 16) == (f.len == 56)
}

pub const NINE: [u32; 9] = [0, 4, 5, 11, 16, 17, 18, 20, 21];

// ---------------------------------------------------------------------------------------------
// Builders.  Every builder leaves unspecified bits to the caller (`fill` = random payload bits
// that are first written everywhere and then overwritten by the named fields).

fn base(df: u32, fill: u128) -> Frame {
    let len = if df < 16 { 56 } else { 112 };
    let mut f = Frame::new(len);
    f.bits = if len == 56 { fill & ((1u128 << 56) - 1) } else { fill & ((1u128 << 112) - 1) };
    f.set(1, 5, df as u64);
    f
}

/// DF0 / DF16 (air-air), DF4 / DF20 (altitude reply), DF5 / DF21 (identity reply): address/parity formats
pub fn ap_frame(df: u32, addr: u32, fill: u128) -> Frame {
    base(df, fill).seal(addr)
}

pub fn df4(addr: u32, ac13: u32, fill: u128) -> Frame {
    base(4, fill).with(20, 32, ac13 as u64).seal(addr)
}
pub fn df0(addr: u32, ac13: u32, fill: u128) -> Frame {
    base(0, fill).with(20, 32, ac13 as u64).seal(addr)
}
pub fn df16(addr: u32, ac13: u32, fill: u128) -> Frame {
    base(16, fill).with(20, 32, ac13 as u64).seal(addr)
}
pub fn df5(addr: u32, id13: u32, fill: u128) -> Frame {
    base(5, fill).with(20, 32, id13 as u64).seal(addr)
}
pub fn df20(addr: u32, ac13: u32, mb: u64, fill: u128) -> Frame {
    base(20, fill).with(20, 32, ac13 as u64).with(33, 88, mb).seal(addr)
}
pub fn df21(addr: u32, id13: u32, mb: u64, fill: u128) -> Frame {
    base(21, fill).with(20, 32, id13 as u64).with(33, 88, mb).seal(addr)
}
/// all-call reply: CA, AA, PI = CRC ^ interrogator code (0..127)
pub fn df11(addr: u32, ca: u32, ic: u32) -> Frame {
    base(11, 0).with(6, 8, ca as u64).with(9, 32, addr as u64).seal(ic & 0x7F)
}
/// extended squitter DF17/DF18 with a 56-bit ME field
pub fn es(df: u32, ca: u32, addr: u32, me: u64) -> Frame {
    base(df, 0).with(6, 8, ca as u64).with(9, 32, addr as u64).with(33, 88, me).seal(0)
}

// ME builders (56-bit field, bit 1 of ME = frame bit 33) -------------------------------------

pub struct Me(pub u64);
impl Me {
    pub fn new(tc: u32, sub: u32) -> Me {
        let mut m = Me(0);
        m.set(1, 5, tc as u64);
        m.set(6, 8, sub as u64);
        m
    }
    pub fn set(&mut self, sb: u32, eb: u32, v: u64) {
        let width = eb - sb + 1;
        let shift = 56 - eb;
        let mask = ((1u64 << width) - 1) << shift;
        self.0 = (self.0 & !mask) | ((v << shift) & mask);
    }
    pub fn with(mut self, sb: u32, eb: u32, v: u64) -> Me {
        self.set(sb, eb, v);
        self
    }
    pub fn get(&self, sb: u32, eb: u32) -> u64 {
        let width = eb - sb + 1;
        let shift = 56 - eb;
        (self.0 >> shift) & ((1u64 << width) - 1)
    }
}

/// identification: TC 1..4, category, eight 6-bit characters
pub fn me_ident(tc: u32, ca: u32, chars: [u8; 8]) -> u64 {
    let mut m = Me::new(tc, ca);
    for (i, c) in chars.iter().enumerate() {
        let sb = 9 + 6 * i as u32;
        m.set(sb, sb + 5, (*c & 63) as u64);
    }
    m.0
}

/// airborne position TC 9..18 (or 20..22): SS(2) SAF/NICb(1) AC12 T F lat17 lon17
pub fn me_airpos(tc: u32, ss: u32, saf: u32, ac12: u32, t: u32, f: u32, lat: u32, lon: u32) -> u64 {
    let mut m = Me(0);
    m.set(1, 5, tc as u64);
    m.set(6, 7, ss as u64);
    m.set(8, 8, saf as u64);
    m.set(9, 20, ac12 as u64);
    m.set(21, 21, t as u64);
    m.set(22, 22, f as u64);
    m.set(23, 39, lat as u64);
    m.set(40, 56, lon as u64);
    m.0
}

/// surface position TC 5..8: movement(7) track status(1) track(7) T F lat17 lon17
pub fn me_surfpos(tc: u32, mov: u32, trk_status: u32, trk: u32, t: u32, f: u32, lat: u32, lon: u32) -> u64 {
    let mut m = Me(0);
    m.set(1, 5, tc as u64);
    m.set(6, 12, mov as u64);
    m.set(13, 13, trk_status as u64);
    m.set(14, 20, trk as u64);
    m.set(21, 21, t as u64);
    m.set(22, 22, f as u64);
    m.set(23, 39, lat as u64);
    m.set(40, 56, lon as u64);
    m.0
}

/// airborne velocity TC19 subtype 1/2 (ground speed components)
#[derive(Clone, Copy, Debug, Serialize, Deserialize, PartialEq, Eq, Hash)]
pub struct Vel {
    pub sub: u32,
    pub hdr: u32, // ME bits 9..13 (intent change, IFR/reserved, NACv)
    pub s_ew: u32,
    pub v_ew: u32,
    pub s_ns: u32,
    pub v_ns: u32,
    pub vr_src: u32,
    pub s_vr: u32,
    pub vr: u32,
    pub rsv: u32, // ME 47..48
    pub s_dif: u32,
    pub dif: u32,
}
pub fn me_velocity(v: &Vel) -> u64 {
    let mut m = Me::new(19, v.sub);
    m.set(9, 13, v.hdr as u64);
    m.set(14, 14, v.s_ew as u64);
    m.set(15, 24, v.v_ew as u64);
    m.set(25, 25, v.s_ns as u64);
    m.set(26, 35, v.v_ns as u64);
    m.set(36, 36, v.vr_src as u64);
    m.set(37, 37, v.s_vr as u64);
    m.set(38, 46, v.vr as u64);
    m.set(47, 48, v.rsv as u64);
    m.set(49, 49, v.s_dif as u64);
    m.set(50, 56, v.dif as u64);
    m.0
}

/// TC31 operational status: version number in ME bits 41..43
pub fn me_opstatus(sub: u32, version: u32, fill: u64) -> u64 {
    let mut m = Me(fill & ((1u64 << 56) - 1));
    m.set(1, 5, 31);
    m.set(6, 8, sub as u64);
    m.set(41, 43, version as u64);
    m.0
}

/// any TC with arbitrary remaining bits
pub fn me_raw(tc: u32, fill: u64) -> u64 {
    let mut m = Me(fill & ((1u64 << 56) - 1));
    m.set(1, 5, tc as u64);
    m.0
}

// altitude / identity code encoders ------------------------------------------------------------

/// AC13 with M=0, Q=1 from N (11 bits)
pub fn ac13_q1(n: u32) -> u32 {
    // bits: a1..a6 M a7 Q a8..a11  (13 bits, index 12 = first)
    let hi = (n >> 5) & 0x3F; // first six
    let mid = (n >> 4) & 1; // bit between M and Q
    let lo = n & 0xF;
    (hi << 7) | (0 << 6) | (mid << 5) | (1 << 4) | lo
}
/// AC12 (no M bit) Q=1 from N (11 bits): a1..a7 Q a8..a11
pub fn ac12_q1(n: u32) -> u32 {
    ((n >> 4) << 5) | (1 << 4) | (n & 0xF)
}
/// ID13 from four octal digits: C1 A1 C2 A2 C4 A4 X B1 D1 B2 D2 B4 D4
pub fn id13_from_squawk(a: u32, b: u32, c: u32, d: u32, x: u32) -> u32 {
    let bit = |v: u32, k: u32| (v >> k) & 1; // k=0 -> "1", k=1 -> "2", k=2 -> "4"
    (bit(c, 0) << 12)
        | (bit(a, 0) << 11)
        | (bit(c, 1) << 10)
        | (bit(a, 1) << 9)
        | (bit(c, 2) << 8)
        | (bit(a, 2) << 7)
        | ((x & 1) << 6)
        | (bit(b, 0) << 5)
        | (bit(d, 0) << 4)
        | (bit(b, 1) << 3)
        | (bit(d, 1) << 2)
        | (bit(b, 2) << 1)
        | bit(d, 2)
}

#[cfg(test)]
mod tests {
    use super::*;
    #[test]
    fn crc_known_frames() {
        // intact DF17 frames from the literature
        for h in ["8D40621D58C382D690C8AC2863A7", "8D406B902015A678D4D220AA4BDA", "8D4840D6202CC371C32CE0576098"] {
            let f = Frame::from_hex(h).unwrap();
            assert_eq!(f.syndrome(), 0, "{}", h);
        }
        // DF20 example of the repository's doc comment: address 0x71BC00
        let f = Frame::from_hex("A0001838300000000000007ADA59").unwrap();
        assert_eq!(f.address(), 7453696);
        let g = df4(0xABCDEF, 0x1234 & 0x1FFF, 0x55AA_55AA_55AA_55);
        assert_eq!(g.address(), 0xABCDEF);
        assert_eq!(g.df(), 4);
        let g = df11(0x4840D6, 5, 9);
        assert_eq!(g.syndrome(), 9);
        assert!(parity_ok(&g));
    }
    #[test]
    fn field_roundtrip() {
        let mut f = Frame::long();
        f.set(33, 88, 0x00FF_EE11_2233_44);
        assert_eq!(f.get(33, 88), 0x00FF_EE11_2233_44);
        f.set(1, 5, 17);
        assert_eq!(f.df(), 17);
        assert_eq!(f.hex().len(), 28);
    }
}
