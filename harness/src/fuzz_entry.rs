//! Entry points shared by the libFuzzer targets and by `pbt replay` of their artifacts.
//! The semantic oracles (C01 sentinel, C13 metamorphic relation, C02 acceptance / decoration rules)
//! live inside the target, not only crash detection.

use crate::bits::{self, Frame, NINE};
use crate::props::c01::{Stream, SENTINEL_ADDR};
use crate::props::c02::frame_of_digits;
use crate::props::c13::accepted;
use crate::run::{self, Opts, RunErr};

/// bytes -> (options, lines).  Layout: 2 option bytes, then records [kind][len][payload]:
/// kind%4 == 0 raw bytes, 1 hex digits of the payload bytes, 2 frame whose parity is fixed up
/// (so that mutation reaches the decoders behind the CRC gate), 3 the payload as text line.
pub fn decode_stream(data: &[u8]) -> Stream {
    let (o0, o1) = (data.first().copied().unwrap_or(0), data.get(1).copied().unwrap_or(0));
    let disp = ["Q", "aAews", "", "e", "AQ", "ws", "x", "a"][(o1 & 7) as usize];
    let ord = ["sA", "N", "dV", "c", "aW", "", "E", "vS"][((o1 >> 3) & 7) as usize];
    let opts = Opts {
        u: o0 & 1 != 0,
        r: o0 & 2 != 0,
        c: o0 & 4 != 0,
        f: match (o0 >> 3) & 3 { 0 | 1 => None, 2 => Some(vec![11, 17, 4, 20]), _ => Some(vec![0, 5, 16, 18, 21]) },
        i: vec![disp.to_string()],
        o: vec![ord.to_string()],
        d: [0i64, 5, 60, 600][((o0 >> 5) & 3) as usize],
        upd: [-1i64, 0, 3, 1000][((o1 >> 6) & 3) as usize],
        m: if o0 & 0x80 != 0 { Some(vec![17, 4]) } else { None },
        dl: false,
        fmt: None,
    };
    let mut lines = Vec::new();
    let mut hostile = 0u32;
    let mut i = 2usize;
    while i + 1 < data.len() && lines.len() < 200 {
        let kind = data[i] % 4;
        let len = (data[i + 1] as usize).min(data.len() - i - 2);
        let payload = &data[i + 2..i + 2 + len];
        i += 2 + len;
        let line: Vec<u8> = match kind {
            0 => payload.iter().cloned().filter(|b| *b != b'\n').collect(),
            1 => payload.iter().flat_map(|b| format!("{:02X}", b).into_bytes()).collect(),
            2 => {
                // a frame: first payload byte picks DF, the rest fills the bits; parity sealed for a small address pool
                let df = payload.first().copied().unwrap_or(0) as u32 % 32;
                let len_bits = if df < 16 { 56 } else { 112 };
                let mut f = Frame::new(len_bits);
                let mut x: u128 = 0;
                for b in payload.iter().skip(1).take(14) {
                    x = (x << 8) | *b as u128;
                }
                f.bits = x & ((1u128 << len_bits) - 1);
                f.set(1, 5, df as u64);
                let addr = [0x4840D6u32, 0xA12345, 0x000001][payload.len() % 3];
                let f = match df {
                    11 | 17 | 18 => { f.set(9, 32, addr as u64); f.seal(0) }
                    0 | 4 | 5 | 16 | 20 | 21 => f.seal(addr),
                    _ => f,
                };
                f.hex().into_bytes()
            }
            _ => payload.iter().map(|b| if *b == b'\n' { b' ' } else { *b }).collect(),
        };
        if kind != 2 { hostile += 1; }
        lines.push(line);
    }
    Stream { opts, lines, hostile, crlf: o1 & 0x20 != 0 && false }
}

/// C01 (+C13) oracle on a decoded stream.  Err = (property, message)
pub fn check_stream_bytes(data: &[u8]) -> Result<(), (String, String)> {
    let s = decode_stream(data);
    let t = run::new_table();
    match run::run_bytes(&s.opts, &t, &s.bytes()) {
        Ok(()) => {}
        Err(RunErr::Panic(p)) => return Err(("C01".into(), format!("reader thread panicked: {}", p))),
        Err(RunErr::Io(e)) => return Err(("C01".into(), format!("reader returned an error: {}", e))),
    }
    let admitted = s.opts.f.as_ref().map(|f| f.contains(&11)).unwrap_or(true);
    let snap = run::snapshot(&t);
    // (with -d 0 every sweep empties the table, the sentinel's row included)
    if admitted && s.opts.d > 0 && !snap.contains_key(&SENTINEL_ADDR) {
        return Err(("C01".into(), "the well-formed line after the stream was not processed".into()));
    }
    // C13: table(stream) == table(accepted subsequence); only when no line could be both invalid UTF-8 and of an accepted digit count
    let ambiguous = s.lines.iter().any(|l| std::str::from_utf8(l).is_err() && matches!(l.iter().filter(|b| b.is_ascii_hexdigit()).count(), 14 | 28 | 26 | 40));
    if !ambiguous && s.opts.d >= 60 {
        let mut acc = Vec::new();
        for l in s.lines.iter().filter(|l| accepted(l)) {
            acc.extend_from_slice(l);
            acc.push(b'\n');
        }
        acc.extend_from_slice(bits::df11(SENTINEL_ADDR, 5, 0).hex().as_bytes());
        acc.push(b'\n');
        let t2 = run::new_table();
        if run::run_bytes(&s.opts, &t2, &acc).is_ok() {
            let a = run::no_clock(&snap);
            let b = run::no_clock(&run::snapshot(&t2));
            if a != b {
                return Err(("C13".into(), format!("table(stream) differs from table(accepted lines): {}", run::table_diff(&b, &a).iter().take(4).cloned().collect::<Vec<_>>().join("; "))));
            }
        }
    }
    Ok(())
}

/// C02 oracle on one raw line
pub fn check_line_bytes(data: &[u8]) -> Result<(), (String, String)> {
    let line: Vec<u8> = data.iter().cloned().filter(|b| *b != b'\n').collect();
    let Ok(text) = std::str::from_utf8(&line) else {
        return Ok(()); // invalid UTF-8 belongs to fz_stream / C13
    };
    let digits: String = text.chars().filter(|c| c.to_digit(16).is_some()).map(|c| c.to_ascii_uppercase()).collect();
    let frame = frame_of_digits(&digits);
    let o = Opts::quiet().with_u(data.len() % 2 == 1);
    if squitterator::get_message(text).is_some() != squitterator::get_message(&digits).is_some() {
        return Err(("C02".into(), format!("get_message differs between {:?} and its bare digits", text)));
    }
    let prefix = vec![bits::df11(0x4840D6, 5, 0).hex(), bits::df4(0x4840D6, bits::ac13_q1(1000), 0).hex()];
    let t = run::new_table();
    run::run_lines(&o, &t, &prefix).map_err(|e| ("C01".to_string(), format!("{:?}", e)))?;
    let before = run::snapshot(&t);
    run::run_bytes(&o, &t, &[&line[..], b"\n"].concat()).map_err(|e| ("C01".to_string(), format!("reader failed on {:?}: {:?}", text, e)))?;
    let after = run::snapshot(&t);
    match &frame {
        None => {
            if before != after {
                return Err(("C02".into(), format!("line {:?} is not a frame but changed the table", text)));
            }
        }
        Some(f) => {
            let a = f.address();
            if NINE.contains(&f.df()) && a != 0 && !after.contains_key(&a) {
                return Err(("C02".into(), format!("line {:?} is a DF{} frame for {:06X} but no row exists", text, f.df(), a)));
            }
        }
    }
    if text != digits {
        let t2 = run::new_table();
        run::run_lines(&o, &t2, &prefix).map_err(|e| ("C01".to_string(), format!("{:?}", e)))?;
        run::run_lines(&o, &t2, &[digits.clone()]).map_err(|e| ("C01".to_string(), format!("{:?}", e)))?;
        if run::no_clock(&run::snapshot(&t2)) != run::no_clock(&after) {
            return Err(("C02".into(), format!("decoration changes the result: {:?} vs {:?}", text, digits)));
        }
    }
    Ok(())
}
