use serde_json::Value;
use sqverif::ctx::{self, Ctx, Tier, WorkerOut};
use sqverif::props;
use std::collections::{BTreeMap, HashSet};
use std::path::PathBuf;
use std::process::Command;
use std::time::{Duration, Instant};

fn verif_root() -> PathBuf {
    PathBuf::from(std::env::var("VERIF_ROOT").unwrap_or_else(|_| "/verif".to_string()))
}

fn arg_val(args: &[String], name: &str) -> Option<String> {
    args.iter().position(|a| a == name).and_then(|i| args.get(i + 1).cloned())
}

fn main() {
    let args: Vec<String> = std::env::args().collect();
    if args.len() < 2 {
        eprintln!("usage: pbt check <ID> [--tier quick|thorough] [--seed N] | pbt worker ... | pbt replay <file> | pbt list");
        std::process::exit(2);
    }
    let code = match args[1].as_str() {
        "check" => driver(&args[2..]),
        "worker" => worker(&args[2..]),
        "replay" => replay(&args[2..]),
        "dump-gillham" => {
            sqverif::run::install_quiet_panic_hook();
            let saved = unsafe { libc::dup(1) };
            sqverif::run::silence_stdout();
            let t = props::c05::dump_gillham_table();
            unsafe {
                libc::dup2(saved, 1);
            }
            print!("{}", t);
            0
        }
        "list" => {
            for p in props::all() {
                println!("{}", p.id);
            }
            0
        }
        _ => {
            eprintln!("unknown sub-command");
            2
        }
    };
    sqverif::run::cleanup_tmp();
    std::process::exit(code);
}

fn parse_tier(s: Option<String>) -> Tier {
    match s.as_deref() {
        Some("thorough") => Tier::Thorough,
        _ => Tier::Quick,
    }
}

fn worker(args: &[String]) -> i32 {
    let id = args[0].clone();
    let tier = parse_tier(arg_val(args, "--tier"));
    let seed: u64 = arg_val(args, "--seed").and_then(|s| s.parse().ok()).unwrap_or(0);
    let worker: u32 = arg_val(args, "--worker").and_then(|s| s.parse().ok()).unwrap_or(0);
    let workers: u32 = arg_val(args, "--workers").and_then(|s| s.parse().ok()).unwrap_or(1);
    let out = arg_val(args, "--out").expect("--out");
    let Some(spec) = props::find(&id) else {
        eprintln!("unknown property {}", id);
        return 2;
    };
    sqverif::run::install_quiet_panic_hook();
    sqverif::run::silence_stdout();
    {
        // a run that wedges the reader ends this worker with status 3 and a record of the input
        let hang_out = format!("{}.hang.json", out);
        sqverif::run::install_watchdog(Box::new(move |opts, data, verdict| {
            let hex: String = data.iter().map(|b| format!("{:02x}", b)).collect();
            let _ = std::fs::write(&hang_out, serde_json::to_vec(&serde_json::json!({"kind": "hang", "opts": opts, "hex": hex, "verdict": verdict})).unwrap());
        }));
    }
    let known = ctx::load_known(&verif_root());
    let mut c = Ctx::new(&id, tier, seed, worker, workers, known);
    let r = std::panic::catch_unwind(std::panic::AssertUnwindSafe(|| (spec.run)(&mut c)));
    if r.is_err() {
        let what = sqverif::run::take_last_panic().unwrap_or_else(|| "panic".into());
        if what.contains("/repo/") {
            // the code under test panicked while it was called directly (not inside the reader thread)
            c.fail(
                format!("the code under test panicked when called from the harness thread: {}", what),
                "panic:direct_call",
                serde_json::json!({"kind":"worker_panic","tier":tier.name(),"seed":seed,"worker":worker,"workers":workers}),
            );
        } else {
            c.inconclusive(&format!("harness panic: {}", what));
        }
    }
    let o = c.finish();
    std::fs::write(&out, serde_json::to_vec(&o).unwrap()).expect("write worker output");
    0
}

fn driver(args: &[String]) -> i32 {
    let id = args[0].clone();
    let tier = parse_tier(arg_val(args, "--tier").or_else(|| std::env::var("VERIF_TIER").ok()));
    let seed: u64 = arg_val(args, "--seed").or_else(|| std::env::var("VERIF_SEED").ok()).and_then(|s| s.trim().parse::<i64>().ok()).map(|v| v as u64).unwrap_or(1);
    let Some(spec) = props::find(&id) else {
        eprintln!("unknown property {}", id);
        return 2;
    };
    let root = verif_root();
    let evdir = root.join("evidence");
    let _ = std::fs::create_dir_all(&evdir);
    let _ = std::fs::create_dir_all(root.join("replays"));
    let start = Instant::now();
    let ncpu = std::thread::available_parallelism().map(|n| n.get() as u32).unwrap_or(4);
    let nworkers = spec.workers.min(ncpu.max(1)).max(1);
    // debugging aid: VERIF_SKIP_PBT=1 runs only the libFuzzer campaign of a thorough tier
    let skip_pbt = std::env::var("VERIF_SKIP_PBT").is_ok();
    let exe = std::env::current_exe().expect("exe");
    let scratch = sqverif::run::tmp_dir();
    let budget = Duration::from_secs(match tier {
        Tier::Quick => spec.quick_budget_s,
        Tier::Thorough => spec.thorough_budget_s,
    });
    let mut children = Vec::new();
    let mut exes = vec![(exe.clone(), "checked")];
    if spec.also_nochk {
        // sibling binary built with the `nochk` profile (wrapping arithmetic, like the project's release profile)
        let sib = exe.parent().and_then(|p| p.parent()).map(|p| p.join("nochk").join("pbt"));
        match sib {
            Some(p) if p.exists() => exes.push((p, "nochk")),
            _ => {
                eprintln!("the nochk build of the harness is missing (run ./check, not pbt directly)");
                return 2;
            }
        }
    }
    for (exe, tag) in &exes {
        for w in 0..(if skip_pbt { 0 } else { nworkers }) {
            let out = scratch.join(format!("w{}-{}.json", w, tag));
            let ch = Command::new(exe)
                .args(["worker", &id, "--tier", tier.name(), "--seed", &seed.to_string(), "--worker", &w.to_string(), "--workers", &nworkers.to_string(), "--out"])
                .arg(&out)
                .env("VERIF_ROOT", &root)
                .env("VERIF_PROFILE", tag)
                .env("TZ", ["UTC", "Asia/Tokyo", "America/New_York", "Europe/Paris", "Pacific/Chatham"][(w % 5) as usize])
                .spawn();
            match ch {
                Ok(c) => children.push((c, out)),
                Err(e) => {
                    eprintln!("cannot spawn worker: {}", e);
                    return 2;
                }
            }
        }
    }
    let mut merged = WorkerOut::default();
    let mut nontrivial: HashSet<u64> = HashSet::new();
    let mut infra_problem = Vec::new();
    for (mut ch, out) in children {
        // wait with watchdog
        let status = loop {
            match ch.try_wait() {
                Ok(Some(s)) => break Some(s),
                Ok(None) => {
                    if start.elapsed() > budget {
                        let _ = ch.kill();
                        let _ = ch.wait();
                        break None;
                    }
                    std::thread::sleep(Duration::from_millis(20));
                }
                Err(_) => break None,
            }
        };
        match status {
            None => {
                infra_problem.push("worker exceeded the time budget (inconclusive)".to_string());
                // its scratch directory is named after its pid
                for base in ["/dev/shm", "/tmp"] {
                    let _ = std::fs::remove_dir_all(format!("{}/sqverif-{}", base, ch.id()));
                }
            }
            Some(s) if s.code() == Some(3) => {
                let hang = std::fs::read(format!("{}.hang.json", out.display())).ok().and_then(|b| serde_json::from_slice::<Value>(&b).ok());
                for base in ["/dev/shm", "/tmp"] {
                    let _ = std::fs::remove_dir_all(format!("{}/sqverif-{}", base, ch.id()));
                }
                match hang {
                    Some(h) if id == "C01" => merged.failures.push(ctx::Failure {
                        property: id.clone(),
                        msg: format!("the reader never finished a finite file ({}; options {})", h["verdict"].as_str().unwrap_or("?"), h["opts"]),
                        sig: "c01:hang".into(),
                        case: h,
                    }),
                    Some(h) => infra_problem.push(format!("a generated case wedged the reader thread ({}); termination is C01's property, this check cannot decide its own on such a tree", h["verdict"].as_str().unwrap_or("?"))),
                    None => infra_problem.push("worker ended with status 3 without a hang record".to_string()),
                }
            }
            Some(s) if !s.success() => infra_problem.push(format!("worker ended with {:?}", s)),
            Some(_) => match std::fs::read(&out).ok().and_then(|b| serde_json::from_slice::<WorkerOut>(&b).ok()) {
                None => infra_problem.push("worker output unreadable".to_string()),
                Some(o) => {
                    merged.evaluations += o.evaluations;
                    for (k, v) in o.classes { *merged.classes.entry(k).or_insert(0) += v; }
                    for (k, v) in o.excluded { *merged.excluded.entry(k).or_insert(0) += v; }
                    for (k, v) in o.known_hits { *merged.known_hits.entry(k).or_insert(0) += v; }
                    for s in o.samples { if merged.samples.len() < 10 { merged.samples.push(s); } }
                    merged.failures.extend(o.failures);
                    for d in o.exhaustive_dims { if !merged.exhaustive_dims.contains(&d) { merged.exhaustive_dims.push(d); } }
                    for n in o.notes { if merged.notes.len() < 40 && !merged.notes.contains(&n) { merged.notes.push(n); } }
                    merged.inconclusive.extend(o.inconclusive);
                    nontrivial.extend(o.nontrivial);
                    merged.nontrivial_enumerated += o.nontrivial_enumerated;
                }
            },
        }
    }
    // thorough tier: coverage-guided campaign with the semantic oracle inside the target
    let mut fuzz_info = serde_json::json!(null);
    if tier == Tier::Thorough && merged.failures.is_empty() {
        if let Some(target) = spec.fuzz_target {
            match fuzz_campaign(&root, &id, target, seed) {
                Ok((info, fails, runs)) => {
                    fuzz_info = info;
                    merged.evaluations += runs;
                    merged.failures.extend(fails);
                    *merged.classes.entry("libfuzzer_executions".into()).or_insert(0) += runs;
                }
                Err(e) => infra_problem.push(format!("fuzz campaign could not run: {}", e)),
            }
        }
    }
    let wall = start.elapsed().as_secs_f64();

    // distinct failures by signature+message prefix
    let mut seen = HashSet::new();
    let mut failures = Vec::new();
    for f in merged.failures.drain(..) {
        let key = f.sig.clone();
        if seen.insert(key) {
            failures.push(f);
        }
    }
    merged.failures = failures;

    let exhaustive = !merged.exhaustive_dims.is_empty();
    let ev = ctx::evidence_json(&id, tier, seed, spec.level, spec.rule, spec.assumptions, &merged, nontrivial.len() + merged.nontrivial_enumerated as usize, wall, exhaustive, serde_json::json!({"workers": nworkers, "inconclusive": merged.inconclusive, "libfuzzer": fuzz_info}));
    let evpath = evdir.join(format!("{}.json", id));
    if let Err(e) = std::fs::write(&evpath, serde_json::to_vec_pretty(&ev).unwrap()) {
        eprintln!("cannot write evidence: {}", e);
        return 2;
    }

    for (k, n) in &merged.known_hits {
        println!("KNOWN-FINDING: property={} {} (re-observed {} times)", id, k, n);
    }
    let mut code = 0;
    for (i, f) in merged.failures.iter().enumerate() {
        let path = root.join("replays").join(format!("{}-{:016x}-{}.json", id, ctx::hash_of(&format!("{}{}", f.msg, f.case)), i));
        let body = serde_json::json!({"property": id, "msg": f.msg, "sig": f.sig, "seed": seed, "tier": tier.name(), "case": f.case});
        let _ = std::fs::write(&path, serde_json::to_vec_pretty(&body).unwrap());
        println!("VIOLATION property={} replay={}", id, path.display());
        println!("  detail: {}", f.msg);
        code = 1;
    }
    println!(
        "{} {}: evaluations={} distinct_nontrivial={} violations={} known={} wall={:.1}s workers={}",
        id,
        tier.name(),
        merged.evaluations,
        nontrivial.len() + merged.nontrivial_enumerated as usize,
        merged.failures.len(),
        merged.known_hits.len(),
        wall,
        nworkers
    );
    if code == 0 {
        if !infra_problem.is_empty() || !merged.inconclusive.is_empty() {
            for p in infra_problem.iter().chain(merged.inconclusive.iter()) {
                println!("INCONCLUSIVE: {}", p);
            }
            return 2;
        }
        let nt = nontrivial.len() as u64 + merged.nontrivial_enumerated;
        if nt < spec.min_nontrivial(tier) && !skip_pbt {
            println!("INCONCLUSIVE: only {} distinct non-trivial cases (floor {})", nt, spec.min_nontrivial(tier));
            return 2;
        }
    }
    code
}

/// libFuzzer campaign (fixed work: -runs per job, 16 jobs) on a fresh copy of the committed corpus
fn fuzz_campaign(root: &std::path::Path, id: &str, target: &str, seed: u64) -> Result<(Value, Vec<ctx::Failure>, u64), String> {
    let work = root.join("target").join("fuzzwork").join(format!("{}-{}", id, std::process::id()));
    let corpus = work.join("corpus");
    let art = work.join("art");
    let _ = std::fs::remove_dir_all(&work);
    std::fs::create_dir_all(&corpus).map_err(|e| e.to_string())?;
    std::fs::create_dir_all(&art).map_err(|e| e.to_string())?;
    if let Ok(rd) = std::fs::read_dir(root.join("corpus").join(target)) {
        for e in rd.filter_map(|e| e.ok()) {
            let _ = std::fs::copy(e.path(), corpus.join(e.file_name()));
        }
    }
    let jobs = std::thread::available_parallelism().map(|n| n.get()).unwrap_or(4).min(16);
    let runs: u64 = std::env::var("VERIF_FUZZ_RUNS").ok().and_then(|s| s.parse().ok()).unwrap_or(if target == "fz_line" { 1_500_000 } else { 1_000_000 });
    let st = Command::new("cargo")
        .current_dir(&work)
        .env("CARGO_NET_OFFLINE", "true")
        .args(["+nightly", "fuzz", "run", "--fuzz-dir"])
        .arg(root.join("fuzz"))
        .args(["-s", "none", "--target-dir"])
        .arg(root.join("target").join("fuzz"))
        .arg(target)
        .arg(&corpus)
        .arg("--")
        .args([format!("-runs={}", runs), format!("-seed={}", if seed == 0 { 1 } else { seed }), "-len_control=0".into(), "-max_len=2048".into(), format!("-jobs={}", jobs), format!("-workers={}", jobs), "-print_final_stats=1".into(), "-timeout=120".into(), format!("-artifact_prefix={}/", art.display())])
        .stdout(std::process::Stdio::null())
        .stderr(std::process::Stdio::piped())
        .output()
        .map_err(|e| format!("cannot start cargo fuzz: {}", e))?;
    let err = String::from_utf8_lossy(&st.stderr).to_string();
    // executed units from the job logs
    let mut executed = 0u64;
    let mut logs = 0;
    if let Ok(rd) = std::fs::read_dir(&work) {
        for e in rd.filter_map(|e| e.ok()) {
            let n = e.file_name().to_string_lossy().to_string();
            if n.starts_with("fuzz-") && n.ends_with(".log") {
                logs += 1;
                if let Ok(t) = std::fs::read_to_string(e.path()) {
                    for l in t.lines() {
                        if let Some(v) = l.strip_prefix("stat::number_of_executed_units:") {
                            executed += v.trim().parse::<u64>().unwrap_or(0);
                        }
                    }
                }
            }
        }
    }
    let mut fails = Vec::new();
    let mut artifacts = Vec::new();
    if let Ok(rd) = std::fs::read_dir(&art) {
        for e in rd.filter_map(|e| e.ok()) {
            let data = std::fs::read(e.path()).unwrap_or_default();
            artifacts.push(e.file_name().to_string_lossy().to_string());
            let saved = unsafe { libc::dup(1) };
            sqverif::run::install_quiet_panic_hook();
            // an artifact libFuzzer saved because the input never finished: decided by the load-independent watchdog
            {
                let (idc, rootc) = (id.to_string(), root.to_path_buf());
                sqverif::run::set_saved_stdout(saved);
                sqverif::run::install_watchdog(Box::new(move |opts, data, verdict| {
                    let hex: String = data.iter().map(|b| format!("{:02x}", b)).collect();
                    let path = rootc.join("replays").join(format!("{}-hang-{:016x}.json", idc, ctx::hash_of(&hex)));
                    let body = serde_json::json!({"property": idc, "msg": format!("the reader never finished a finite file ({})", verdict), "sig": "c01:hang", "case": {"kind": "hang", "opts": opts, "hex": hex, "verdict": verdict}});
                    let _ = std::fs::write(&path, serde_json::to_vec_pretty(&body).unwrap());
                    let line = if idc == "C01" { format!("VIOLATION property={} replay={}\n  detail: libFuzzer artifact: the reader never finished a finite file ({})\n", idc, path.display(), verdict) } else { format!("INCONCLUSIVE: a libFuzzer artifact wedges the reader thread ({}); termination is C01's property\n", verdict) };
                    if let Some(fd) = sqverif::run::saved_stdout() {
                        unsafe { libc::write(fd, line.as_ptr() as *const libc::c_void, line.len()) };
                    }
                    std::process::exit(if idc == "C01" { 1 } else { 2 });
                }));
            }
            sqverif::run::silence_stdout();
            let r = if target == "fz_line" { sqverif::fuzz_entry::check_line_bytes(&data) } else { sqverif::fuzz_entry::check_stream_bytes(&data) };
            unsafe {
                libc::dup2(saved, 1);
                libc::close(saved);
            }
            if let Err((p, m)) = r {
                fails.push(ctx::Failure { property: id.to_string(), msg: format!("libFuzzer artifact {}: [{}] {}", e.file_name().to_string_lossy(), p, m), sig: "fuzz:artifact".into(), case: props::fuzz_case(target, &data) });
            }
        }
    }
    if logs == 0 && executed == 0 {
        return Err(format!("no libFuzzer log was produced: {}", err.lines().rev().take(5).collect::<Vec<_>>().join(" | ")));
    }
    let info = serde_json::json!({"target": target, "jobs": jobs, "runs_per_job": runs, "executed_units": executed, "artifacts": artifacts, "corpus_seed_files": std::fs::read_dir(root.join("corpus").join(target)).map(|d| d.count()).unwrap_or(0)});
    if fails.is_empty() {
        let _ = std::fs::remove_dir_all(&work);
    }
    Ok((info, fails, executed))
}

fn replay(args: &[String]) -> i32 {
    let Some(path) = args.first() else {
        eprintln!("replay <file>");
        return 2;
    };
    let Ok(bytes) = std::fs::read(path) else {
        eprintln!("cannot read {}", path);
        return 2;
    };
    let Ok(v) = serde_json::from_slice::<Value>(&bytes) else {
        eprintln!("not json");
        return 2;
    };
    let id = v.get("property").and_then(|p| p.as_str()).unwrap_or("").to_string();
    let Some(spec) = props::find(&id) else {
        eprintln!("unknown property {:?}", id);
        return 2;
    };
    sqverif::run::install_quiet_panic_hook();
    let known = ctx::load_known(&verif_root());
    let mut c = Ctx::new(&id, Tier::Quick, 0, 0, 1, known);
    c.strict = std::env::var("VERIF_REPLAY_STRICT").is_ok();
    let case = v.get("case").cloned().unwrap_or(Value::Null);
    {
        let (id2, path2) = (id.clone(), path.clone());
        sqverif::run::install_watchdog(Box::new(move |_opts, _data, verdict| {
            // the watchdog thread speaks for the wedged main thread; stdout may be silenced, so restore is not possible: use stderr too
            let line = if id2 == "C01" { format!("VIOLATION property={} replay={}\n  detail: the reader never finished a finite file ({})", id2, path2, verdict) } else { format!("INCONCLUSIVE: the case wedged the reader thread ({})", verdict) };
            eprintln!("{}", line);
            if let Some(fd) = sqverif::run::saved_stdout() {
                let b = format!("{}\n", line);
                unsafe { libc::write(fd, b.as_ptr() as *const libc::c_void, b.len()) };
            }
            std::process::exit(if id2 == "C01" { 1 } else { 2 });
        }));
    }
    if case.get("kind").and_then(|k| k.as_str()) == Some("hang") {
        let opts: sqverif::run::Opts = serde_json::from_value(case["opts"].clone()).unwrap_or_default();
        let hex = case["hex"].as_str().unwrap_or("");
        let data: Vec<u8> = (0..hex.len() / 2).filter_map(|i| u8::from_str_radix(&hex[2 * i..2 * i + 2], 16).ok()).collect();
        let saved = unsafe { libc::dup(1) };
        sqverif::run::set_saved_stdout(saved);
        sqverif::run::silence_stdout();
        let t = sqverif::run::new_table();
        let r = sqverif::run::run_bytes(&opts, &t, &data);
        unsafe {
            libc::dup2(saved, 1);
            libc::close(saved);
        }
        return match r {
            Ok(()) => {
                println!("replay: property {} holds on this case", id);
                0
            }
            Err(e) => {
                println!("VIOLATION property={} replay={}", id, path);
                println!("  detail: {:?}", e);
                1
            }
        };
    }
    if case.get("kind").and_then(|k| k.as_str()) == Some("worker_panic") {
        // re-run that worker's deterministic share in this process
        let tier = parse_tier(case["tier"].as_str().map(|s| s.to_string()));
        let mut c = Ctx::new(&id, tier, case["seed"].as_u64().unwrap_or(1), case["worker"].as_u64().unwrap_or(0) as u32, case["workers"].as_u64().unwrap_or(1) as u32, ctx::load_known(&verif_root()));
        let saved = unsafe { libc::dup(1) };
        sqverif::run::silence_stdout();
        let r = std::panic::catch_unwind(std::panic::AssertUnwindSafe(|| (spec.run)(&mut c)));
        unsafe {
            libc::dup2(saved, 1);
            libc::close(saved);
        }
        let what = sqverif::run::take_last_panic().unwrap_or_default();
        if r.is_err() && what.contains("/repo/") {
            println!("VIOLATION property={} replay={}", id, path);
            println!("  detail: the code under test panicked when called from the harness thread: {}", what);
            return 1;
        }
        println!("replay: property {} holds on this case", id);
        return 0;
    }
    // keep stdout clean while the code under test runs
    let saved = unsafe { libc::dup(1) };
    sqverif::run::set_saved_stdout(saved);
    sqverif::run::silence_stdout();
    (spec.replay)(&mut c, &case);
    unsafe {
        libc::dup2(saved, 1);
        libc::close(saved);
    }
    let o = c.finish();
    let mut classes: BTreeMap<String, u64> = BTreeMap::new();
    classes.extend(o.classes);
    if o.failures.is_empty() {
        println!("replay: property {} holds on this case", id);
        0
    } else {
        for f in &o.failures {
            println!("VIOLATION property={} replay={}", id, path);
            println!("  detail: {}", f.msg);
        }
        1
    }
}
