//! Shared proptest strategies: addresses, option sets, the well-formed frame alphabet, Comm-B registers.

use crate::bits::{self, Frame, Vel};
use crate::refdec::mb_set;
use crate::run::Opts;
use proptest::prelude::*;

/// non-zero 24-bit addresses, stratified
pub fn addr() -> impl Strategy<Value = u32> {
    prop_oneof![
        2 => (0u32..24).prop_map(|b| 1u32 << b),
        1 => Just(0xFF_FFFFu32),
        1 => (0u32..24).prop_map(|b| 0xFF_FFFF ^ (1u32 << b)),
        8 => 1u32..=0xFF_FFFF,
    ]
}

/// a small pool of distinct addresses for histories (index -> address)
pub const POOL: [u32; 6] = [0x4840D6, 0x4840D7, 0xA12345, 0x000001, 0xFFFFFF, 0x71BC00];

pub fn fill128() -> impl Strategy<Value = u128> {
    prop_oneof![1 => Just(0u128), 1 => Just(u128::MAX), 6 => any::<u128>()]
}
pub fn fill64() -> impl Strategy<Value = u64> {
    prop_oneof![1 => Just(0u64), 1 => Just(u64::MAX), 6 => any::<u64>()]
}

/// decode-relevant options only (quiet display)
pub fn opts_ur() -> impl Strategy<Value = Opts> {
    (any::<bool>(), any::<bool>()).prop_map(|(u, r)| Opts::quiet().with_u(u).with_r(r))
}

// ------------------------------------------------------------------------------------------
// altitude / identity codes

/// AC13 with M=0, Q=1, altitude >= 0 (valid carried value)
pub fn ac13_valid() -> impl Strategy<Value = u32> {
    prop_oneof![1 => Just(40u32), 1 => Just(2047u32), 8 => 40u32..2048].prop_map(bits::ac13_q1)
}
pub fn ac12_valid() -> impl Strategy<Value = u32> {
    prop_oneof![1 => Just(40u32), 1 => Just(2047u32), 8 => 40u32..2048].prop_map(bits::ac12_q1)
}
/// any AC13, boundary classes emphasised
pub fn ac13_any() -> impl Strategy<Value = u32> {
    prop_oneof![
        1 => Just(0u32),
        2 => (0u32..40).prop_map(bits::ac13_q1),          // below 0 ft
        3 => (40u32..2048).prop_map(bits::ac13_q1),
        3 => 0u32..8192,
    ]
}
pub fn ac12_any() -> impl Strategy<Value = u32> {
    prop_oneof![
        1 => Just(0u32),
        2 => (0u32..40).prop_map(bits::ac12_q1),
        3 => (40u32..2048).prop_map(bits::ac12_q1),
        3 => 0u32..4096,
    ]
}
pub fn id13() -> impl Strategy<Value = u32> {
    0u32..8192
}

// ------------------------------------------------------------------------------------------
// ME fields

pub fn chars8() -> impl Strategy<Value = [u8; 8]> {
    let ch = prop_oneof![4 => 1u8..=26, 3 => 48u8..=57, 1 => Just(32u8), 2 => 0u8..64];
    proptest::array::uniform8(ch)
}
/// non-empty callsigns made of mapped characters only
pub fn chars8_valid() -> impl Strategy<Value = [u8; 8]> {
    let ch = prop_oneof![4 => 1u8..=26, 3 => 48u8..=57];
    proptest::array::uniform8(ch)
}

/// callsigns from a pool of two: the same string then returns with another category / type code / capability
pub fn chars8_pool() -> impl Strategy<Value = [u8; 8]> {
    // "EIN12345" and "KLM45ABC" in the 6-bit alphabet (letters 1..26, digits 48..57)
    proptest::sample::select(vec![[5u8, 9, 14, 49, 50, 51, 52, 53], [11u8, 12, 13, 52, 53, 1, 2, 3]])
}

pub fn vel_any() -> impl Strategy<Value = Vel> {
    let mag = || prop_oneof![1 => Just(0u32), 1 => Just(1u32), 1 => Just(2u32), 1 => Just(1022u32), 1 => Just(1023u32), 6 => 0u32..1024];
    let vr = prop_oneof![1 => Just(0u32), 1 => Just(1u32), 1 => Just(2u32), 1 => Just(511u32), 5 => 0u32..512];
    (
        (prop_oneof![Just(1u32), Just(2u32)], 0u32..32, 0u32..2, mag(), 0u32..2, mag()),
        (0u32..2, 0u32..2, vr, 0u32..4, 0u32..2, 0u32..128),
    )
        .prop_map(|((sub, hdr, s_ew, v_ew, s_ns, v_ns), (vr_src, s_vr, vr, rsv, s_dif, dif))| Vel { sub, hdr, s_ew, v_ew, s_ns, v_ns, vr_src, s_vr, vr, rsv, s_dif, dif })
}
/// all fields carry information (non-zero)
pub fn vel_valid() -> impl Strategy<Value = Vel> {
    vel_any().prop_map(|mut v| {
        if v.v_ew == 0 { v.v_ew = 7; }
        if v.v_ns == 0 { v.v_ns = 300; }
        if v.vr == 0 { v.vr = 12; }
        v
    })
}

// ------------------------------------------------------------------------------------------
// Comm-B registers synthesised field by field

#[derive(Clone, Debug)]
pub struct R40 { pub mcp: u32, pub fms: u32, pub baro: u32, pub mode_status: u32, pub modes: u32, pub src_status: u32, pub src: u32 }
pub fn mb40(r: &R40) -> u64 {
    let mut mb = 0u64;
    mb_set(&mut mb, 1, 1, 1); mb_set(&mut mb, 2, 13, r.mcp as u64);
    mb_set(&mut mb, 14, 14, 1); mb_set(&mut mb, 15, 26, r.fms as u64);
    mb_set(&mut mb, 27, 27, 1); mb_set(&mut mb, 28, 39, r.baro as u64);
    mb_set(&mut mb, 48, 48, r.mode_status as u64); mb_set(&mut mb, 49, 51, r.modes as u64);
    mb_set(&mut mb, 54, 54, r.src_status as u64); mb_set(&mut mb, 55, 56, r.src as u64);
    mb
}
pub fn r40() -> impl Strategy<Value = R40> {
    let f12 = || prop_oneof![1 => Just(1u32), 1 => Just(4095u32), 6 => 1u32..4096];
    (f12(), f12(), f12(), 0u32..2, 0u32..8, 0u32..2, 0u32..4).prop_map(|(mcp, fms, baro, mode_status, modes, src_status, src)| R40 { mcp, fms, baro, mode_status, modes, src_status, src })
}

#[derive(Clone, Debug)]
pub struct R50 { pub roll: i32, pub track: i32, pub gs: u32, pub rate: i32, pub tas: u32 } // raw two's-complement field values
pub fn mb50(r: &R50) -> u64 {
    let mut mb = 0u64;
    mb_set(&mut mb, 1, 1, 1); mb_set(&mut mb, 2, 11, (r.roll & 0x3FF) as u64);
    mb_set(&mut mb, 12, 12, 1); mb_set(&mut mb, 13, 23, (r.track & 0x7FF) as u64);
    mb_set(&mut mb, 24, 24, 1); mb_set(&mut mb, 25, 34, r.gs as u64);
    mb_set(&mut mb, 35, 35, 1); mb_set(&mut mb, 36, 45, (r.rate & 0x3FF) as u64);
    mb_set(&mut mb, 46, 46, 1); mb_set(&mut mb, 47, 56, r.tas as u64);
    mb
}
/// plausible BDS 5,0: |roll| < 50 deg (raw |r| <= 284), gs <= 600 (raw <= 300), tas <= 500 (raw <= 250), |gs-tas| < 200; all magnitude fields non-zero
pub fn r50_plausible() -> impl Strategy<Value = R50> {
    let roll = prop_oneof![1 => Just(1i32), 1 => Just(-1i32), 1 => Just(283i32), 1 => Just(-283i32), 6 => -283i32..=283];
    let rate = prop_oneof![1 => Just(1i32), 1 => Just(-1i32), 1 => Just(511i32), 1 => Just(-511i32), 6 => -511i32..=511];
    let track = prop_oneof![1 => Just(1i32), 1 => Just(-1i32), 1 => Just(1023i32), 1 => Just(-1023i32), 6 => -1023i32..=1023];
    (roll, track, 1u32..=300, rate, 1u32..=250)
        .prop_map(|(roll, track, gs, rate, tas)| {
            // keep |gs - tas| < 200 kt (raw difference < 100) by pulling gs towards tas
            let gs = if (gs as i32 - tas as i32).abs() >= 99 { (tas + 98).min(300) } else { gs };
            R50 { roll, track, gs, rate, tas }
        })
        .prop_filter("non-zero magnitude fields", |r| (r.roll & 0x1FF) != 0 && (r.rate & 0x1FF) != 0 && (r.track & 0x3FF) != 0 && r.roll != 0 && r.rate != 0 && r.track != 0)
}

#[derive(Clone, Debug)]
pub struct R60 { pub hdg: i32, pub ias: u32, pub mach: u32, pub baro: i32, pub ivv: i32 }
pub fn mb60(r: &R60) -> u64 {
    let mut mb = 0u64;
    mb_set(&mut mb, 1, 1, 1); mb_set(&mut mb, 2, 12, (r.hdg & 0x7FF) as u64);
    mb_set(&mut mb, 13, 13, 1); mb_set(&mut mb, 14, 23, r.ias as u64);
    mb_set(&mut mb, 24, 24, 1); mb_set(&mut mb, 25, 34, r.mach as u64);
    mb_set(&mut mb, 35, 35, 1); mb_set(&mut mb, 36, 45, (r.baro & 0x3FF) as u64);
    mb_set(&mut mb, 46, 46, 1); mb_set(&mut mb, 47, 56, (r.ivv & 0x3FF) as u64);
    mb
}
/// plausible BDS 6,0: Mach <= 1 (raw <= 250), |rates| <= 6000 ft/min (raw |r| <= 187), non-zero magnitudes
pub fn r60_plausible() -> impl Strategy<Value = R60> {
    let rate = || prop_oneof![1 => Just(1i32), 1 => Just(-1i32), 1 => Just(187i32), 1 => Just(-187i32), 6 => -187i32..=187];
    let hdg = prop_oneof![1 => Just(1i32), 1 => Just(-1i32), 1 => Just(1023i32), 1 => Just(-1023i32), 6 => -1023i32..=1023];
    (hdg, 1u32..1024, 1u32..=250, rate(), rate())
        .prop_map(|(hdg, ias, mach, baro, ivv)| R60 { hdg, ias, mach, baro, ivv })
        .prop_filter("non-zero magnitude fields", |r| (r.hdg & 0x3FF) != 0 && (r.baro & 0x1FF) != 0 && (r.ivv & 0x1FF) != 0)
}

/// Values of one aircraft as two sources with different resolution report them: TC19 (1 kt, 64 ft/min) and BDS 5,0 /
/// 6,0 (2 kt, 32 ft/min) around 450 kt due east and +640..704 ft/min, so that a register value equals the squitter's
/// value, its rounding, or its neighbour.
pub fn vel_pool() -> impl Strategy<Value = Vel> {
    (449u32..=453, 11u32..=12, 0u32..2).prop_map(|(v_ew, vr, vr_src)| Vel { sub: 1, hdr: 0, s_ew: 0, v_ew, s_ns: 0, v_ns: 1, vr_src, s_vr: 0, vr, rsv: 0, s_dif: 0, dif: 5 })
}
pub fn r50_pool() -> impl Strategy<Value = R50> {
    (223u32..=226, 510i32..=513).prop_map(|(gs, track)| R50 { roll: 10, track, gs, rate: 5, tas: 220 })
}
pub fn r60_pool() -> impl Strategy<Value = R60> {
    (19i32..=23, 19i32..=23).prop_map(|(baro, ivv)| R60 { hdg: 512, ias: 250, mach: 175, baro, ivv })
}

/// BDS 1,7 capability report advertising a chosen subset
pub fn mb17(b40: bool, b50: bool, b60: bool, others: u32) -> u64 {
    let mut mb = 0u64;
    mb_set(&mut mb, 1, 24, (others & 0xFF_FFFF) as u64);
    mb_set(&mut mb, 7, 7, 1);
    mb_set(&mut mb, 9, 9, b40 as u64);
    mb_set(&mut mb, 16, 16, b50 as u64);
    mb_set(&mut mb, 24, 24, b60 as u64);
    mb_set(&mut mb, 25, 28, 0);
    mb
}

/// BDS 2,0: 0x20 then eight characters
pub fn mb20(chars: [u8; 8]) -> u64 {
    let mut mb = 0x20u64 << 48;
    for (i, c) in chars.iter().enumerate() {
        let sb = 9 + 6 * i as u32;
        mb_set(&mut mb, sb, sb + 5, (*c & 63) as u64);
    }
    mb
}

pub fn frame_hexes(frames: &[Frame]) -> Vec<String> {
    frames.iter().map(|f| f.hex()).collect()
}

// ------------------------------------------------------------------------------------------
// byte-level lines

/// characters for which char::to_digit(16) is None (never a line feed)
pub const DECO: &[char] = &['*', '@', ';', ':', ',', ' ', '\t', '\r', '.', '-', '_', '#', '!', '?', '/', '(', ')', '"', '+', '=', '<', '>', '~', 'g', 'h', 'x', 'z', 'G', 'X', 'Z', 'é', 'Ω', 'Ж', '٣', 'Ａ', '１', '\u{0}', '\u{7f}'];

/// one decoration character: the hand-picked list, or any character U+0000..U+00FF that is neither a hexadecimal
/// digit nor a line feed (control characters included)
pub fn deco_char() -> BoxedStrategy<char> {
    prop_oneof![
        2 => proptest::sample::select(DECO.to_vec()),
        2 => (0u32..256).prop_filter_map("not a hex digit, not LF", |v| char::from_u32(v).filter(|c| !c.is_ascii_hexdigit() && *c != '\n')),
    ]
    .boxed()
}

/// a junk line (bytes, no LF) that the reference never takes as a frame.
/// Soundness rule: a line containing invalid UTF-8 or NUL-only noise never carries an accepted digit count.
pub fn junk_line() -> BoxedStrategy<Vec<u8>> {
    let hexd = |n: std::ops::Range<usize>| proptest::collection::vec(0u8..16, n).prop_map(|v| v.iter().map(|d| b"0123456789ABCDEF"[*d as usize]).collect::<Vec<u8>>());
    prop_oneof![
        1 => Just(Vec::new()),
        1 => proptest::collection::vec(prop_oneof![Just(b' '), Just(b'\t'), Just(b'\r')], 1..6),
        2 => "[g-zG-Z ,;:*@._-]{1,40}".prop_map(|s| s.into_bytes()),
        // hex strings of a digit count that is never accepted
        3 => prop_oneof![Just(13usize), Just(15), Just(27), Just(29), Just(25), Just(39), Just(41), Just(1), Just(12), 0usize..64]
            .prop_filter("not an accepted count", |n| !matches!(n, 14 | 28 | 26 | 40))
            .prop_flat_map(move |n| proptest::collection::vec(0u8..16, n).prop_map(|v| v.iter().map(|d| b"0123456789abcdef"[*d as usize]).collect::<Vec<u8>>())),
        // NUL bytes
        1 => proptest::collection::vec(prop_oneof![Just(0u8), Just(b'Z'), Just(b'9')], 1..12).prop_filter("digit count", |v| !matches!(v.iter().filter(|b| **b == b'9').count(), 14 | 28 | 26 | 40)),
        // invalid UTF-8 : lone continuation, truncated multi-byte, 0xC0 / 0xFF, with some text around; digit count never accepted
        3 => (hexd(0..12), prop_oneof![Just(vec![0x80u8]), Just(vec![0xBFu8]), Just(vec![0xC3u8]), Just(vec![0xE2u8, 0x82]), Just(vec![0xF0u8, 0x9F, 0x98]), Just(vec![0xC0u8, 0xAF]), Just(vec![0xFFu8]), Just(vec![0xFEu8, 0xFF]), proptest::collection::vec(0x80u8..=0xFF, 1..6)], hexd(0..12))
            .prop_map(|(a, bad, b)| { let mut v = a; v.extend(bad); v.extend(b); v })
            .prop_filter("digit count", |v| !matches!(v.iter().filter(|b| b.is_ascii_hexdigit()).count(), 14 | 28 | 26 | 40)),
        // 40..200 bytes mixing ASCII, multi-byte characters and invalid bytes (never an accepted digit count)
        3 => proptest::collection::vec(prop_oneof![4 => proptest::sample::select(vec!["g", "z", " ", ";", "*", "x", "G"]).prop_map(|s| s.as_bytes().to_vec()), 3 => proptest::sample::select(vec!["é", "Ω", "Ж", "😀", "٣", "Ａ"]).prop_map(|s| s.as_bytes().to_vec()), 2 => proptest::sample::select(vec![vec![0xFFu8], vec![0x80u8], vec![0xC3u8], vec![0xE2u8, 0x82]]), 1 => proptest::sample::select(vec!["a", "7", "F"]).prop_map(|s| s.as_bytes().to_vec())], 40..160)
            .prop_map(|parts| parts.concat())
            .prop_filter("digit count", |v| !matches!(v.iter().filter(|b| b.is_ascii_hexdigit()).count(), 14 | 28 | 26 | 40)),
        // lone CR inside text
        1 => (hexd(1..13), hexd(0..13)).prop_map(|(a, b)| { let mut v = a; v.push(b'\r'); v.extend(b); v }).prop_filter("digit count", |v| !matches!(v.iter().filter(|b| b.is_ascii_hexdigit()).count(), 14 | 28 | 26 | 40)),
        // truncated frames (a frame cut to 1..13 or 15..27 digits)
        2 => (any::<u128>(), prop_oneof![1usize..14, 15usize..26]).prop_map(|(x, n)| format!("{:028X}", x & ((1u128 << 112) - 1))[..n].as_bytes().to_vec()).prop_filter("count", |v| !matches!(v.len(), 14 | 26)),
    ]
    .boxed()
}

/// a junk line made of non-hex filler up to a power-of-two byte offset, followed by a complete well-formed frame:
/// the whole line has an unaccepted digit count, but a reader that cuts lines at that offset would see the frame
pub fn junk_with_frame_after_offset() -> BoxedStrategy<Vec<u8>> {
    (proptest::sample::select(vec![4096usize, 8192, 16384, 32768, 65536, 131072]), 0usize..4, any::<u128>(), 1u32..0xFFFFFF)
        .prop_map(|(cap, k, fill, addr)| {
            // k hex digits before the offset make the total digit count 28 + k + 2 (never accepted)
            let f = crate::bits::es(17, 5, addr, ((fill as u64) & ((1u64 << 51) - 1)) | (11u64 << 51));
            let mut v = vec![b'-'; cap - k - 2];
            v.extend_from_slice(&b"ABCDEF"[..k + 2]);
            v.extend_from_slice(f.hex().as_bytes());
            v
        })
        .boxed()
}

/// very long junk line (64 KiB .. 256 KiB, or exactly around a power of two from 1 KiB up) of non-hex text with a sprinkling of digits, digit count forced to be unaccepted
pub fn long_junk_line() -> BoxedStrategy<Vec<u8>> {
    // half of the lengths sit on a power of two (1 KiB .. 256 KiB) minus 2 .. plus 1, where fixed-size read buffers end
    let len = prop_oneof![1 => 65_536usize..262_144, 1 => (10u32..=18, 0usize..4).prop_map(|(k, o)| (1usize << k) + o - 2)];
    (len, any::<u8>(), any::<bool>())
        .prop_map(|(n, seed, hexish)| {
            let mut v = Vec::with_capacity(n + 8);
            let mut x = seed as u32 | 1;
            let mut digits = 0usize;
            // one line in three is sprinkled with multi-byte characters and invalid bytes (so that any fixed byte
            // offset may fall inside a character)
            let multibyte = seed % 3 == 0;
            while v.len() < n {
                x = x.wrapping_mul(1664525).wrapping_add(1013904223);
                if multibyte && (x >> 20) % 7 == 0 {
                    let alt: [&[u8]; 5] = ["é".as_bytes(), "Ж".as_bytes(), "😀".as_bytes(), &[0xFF], &[0xE2, 0x82]];
                    v.extend_from_slice(alt[(x >> 12) as usize % 5]);
                    continue;
                }
                let b = if hexish { b"0123456789abcdefXYZ ;*"[(x >> 24) as usize % 22] } else { b"ghijklmnopqrstuvwxyz ,;"[(x >> 24) as usize % 23] };
                if b.is_ascii_hexdigit() { digits += 1; }
                v.push(b);
            }
            v.truncate(n);
            let _ = digits;
            let digits = v.iter().filter(|b| b.is_ascii_hexdigit()).count();
            if matches!(digits, 14 | 28 | 26 | 40) {
                // keep the length: turn one digit into a letter that is not one
                if let Some(b) = v.iter_mut().rev().find(|b| b.is_ascii_hexdigit()) {
                    *b = b'g';
                }
            }
            v
        })
        .boxed()
}
