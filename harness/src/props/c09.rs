//! C09 — ground speed, track and vertical rate follow the TC19 velocity encoding.

use super::PropSpec;
use crate::bits::{self, Vel};
use crate::ctx::{Ctx, Tier};
use crate::gen;
use crate::refdec::{isqrt, velocity_ref};
use crate::run::{self, Opts};
use proptest::prelude::*;
use serde::{Deserialize, Serialize};
use serde_json::{json, Value};

pub fn spec() -> PropSpec {
    PropSpec {
        id: "C09",
        level: "exploration",
        rule: "airborne-velocity squitters (DF17 TC19 subtype 1 and 2) with the sign/magnitude fields enumerated along each axis (every magnitude 0..1023 of one component with the other generated, all four sign combinations), all combinations of the boundary magnitudes {0,1,2,1022,1023}^2, all 2x512 vertical-rate codes, and generated combinations (thorough: the complete 2x1024x2x1024 grid for subtype 1); each as creating frame and as a later frame of a row that shows different values, with generated -U/-R and remaining ME bits. Oracle: closed form V=+-(field-1), gs=isqrt(Vew^2+Vns^2) exact (supersonic: |gs - floor(4*sqrt)| <= 4), track in floor(atan2(Vew,Vns) +- 1e-9) mod 360, vrate=+-64*(field-1); field 0 => blank (update: blank or previous). Non-trivial = both components non-zero; distinct by hash of (fields, path, options)",
        assumptions: &["float tolerance: track may be either neighbour integer when atan2 lands within 1e-9 deg of an integer"],
        workers: 16,
        also_nochk: false,
        fuzz_target: None,
        quick_budget_s: 900,
        thorough_budget_s: 3600,
        min_nontrivial_quick: 60_000,
        min_nontrivial_thorough: 4_000_000,
        run,
        replay,
    }
}

#[derive(Clone, Debug, Serialize, Deserialize, PartialEq, Eq, Hash)]
pub struct Batch {
    pub opts: Opts,
    pub update: bool,
    pub hi: u32,
    pub ca: u32,
    pub vels: Vec<Vel>,
}

const PREV: Vel = Vel { sub: 1, hdr: 0, s_ew: 0, v_ew: 101, s_ns: 1, v_ns: 51, vr_src: 0, s_vr: 0, vr: 11, rsv: 0, s_dif: 0, dif: 0 };
// previous values: ew=+100, ns=-50 -> gs 111, track 116 ; vrate +640
const PREV_GS: u32 = 111;
const PREV_TRK: u32 = 116;
const PREV_VR: i32 = 640;

fn addr_of(b: &Batch, i: usize) -> u32 {
    (((b.hi & 0xFF).max(1)) << 16) | (i as u32 + 1)
}

fn check_batch(b: &Batch) -> Result<(), (usize, String)> {
    assert!(b.vels.len() < 65_000);
    let mut lines = Vec::with_capacity(b.vels.len() * 2);
    for (i, v) in b.vels.iter().enumerate() {
        let a = addr_of(b, i);
        if b.update {
            if b.hi % 4 == 1 {
                // the aircraft first reported from the ground (surface position squitter, which shows no altitude): the
                // airborne velocity squitters that follow are decoded all the same
                lines.push(bits::es(17, 5, a, bits::me_surfpos(6, 20, 1, 40, 0, (i % 2) as u32, 0x1234 + i as u32, 0x2345)).hex());
            }
            lines.push(bits::es(17, 5, a, bits::me_velocity(&PREV)).hex());
            if b.hi % 3 == 0 {
                // a low barometric altitude (1000 ft): a negative GNSS difference larger than it must not matter
                lines.push(bits::df4(a, bits::ac13_q1(80), 0).hex());
            }

        }
        lines.push(bits::es(17, b.ca, a, bits::me_velocity(v)).hex());
    }
    let t = run::new_table();
    run::run_lines(&b.opts, &t, &lines).map_err(|e| (0usize, format!("reader failed: {:?}", e)))?;
    let snap = run::snapshot(&t);
    for (i, v) in b.vels.iter().enumerate() {
        let a = addr_of(b, i);
        let Some(row) = snap.get(&a) else {
            return Err((i, format!("no row for {:06X}", a)));
        };
        let r = velocity_ref(v.sub, v.s_ew, v.v_ew, v.s_ns, v.v_ns, v.s_vr, v.vr);
        let frame = bits::es(17, b.ca, a, bits::me_velocity(v)).hex();
        let ctx = format!("[{} path, {}; frame {}; fields sub={} ew={}{} ns={}{} vr={}{}]", if b.update { "update" } else { "create" }, b.opts.label(), frame, v.sub, if v.s_ew == 1 { "-" } else { "+" }, v.v_ew, if v.s_ns == 1 { "-" } else { "+" }, v.v_ns, if v.s_vr == 1 { "-" } else { "+" }, v.vr);
        // ground speed
        match r.gs_exact {
            Some(g) => {
                let ok = match row.grspeed {
                    None => false,
                    Some(o) => {
                        if v.sub == 2 {
                            let ew = v.v_ew as u64 - 1;
                            let ns = v.v_ns as u64 - 1;
                            let gref = isqrt(16 * (ew * ew + ns * ns)) as i64;
                            (o as i64 - gref).abs() <= 4
                        } else {
                            o == g
                        }
                    }
                };
                if !ok {
                    return Err((i, format!("ground speed {:?}, expected {} {}", row.grspeed, g, ctx)));
                }
                let tr = r.track.clone().unwrap_or_default();
                if !row.track.map(|t| tr.contains(&t)).unwrap_or(false) {
                    return Err((i, format!("track {:?}, expected {:?} {}", row.track, tr, ctx)));
                }
            }
            None => {
                let gs_ok = row.grspeed.is_none() || (b.update && row.grspeed == Some(PREV_GS));
                let tr_ok = row.track.is_none() || (b.update && row.track == Some(PREV_TRK));
                if !gs_ok || !tr_ok {
                    return Err((i, format!("a velocity component field is 0 (no information) but the row shows ground speed {:?} / track {:?} {}", row.grspeed, row.track, ctx)));
                }
            }
        }
        match r.vrate {
            Some(x) => {
                if row.vrate != Some(x) {
                    return Err((i, format!("vertical rate {:?}, expected {} {}", row.vrate, x, ctx)));
                }
            }
            None => {
                if !(row.vrate.is_none() || (b.update && row.vrate == Some(PREV_VR))) {
                    return Err((i, format!("vertical-rate field is 0 (no information) but the row shows {:?} {}", row.vrate, ctx)));
                }
            }
        }
    }
    Ok(())
}

fn run_batch(c: &mut Ctx, b: Batch, class: &str) {
    c.eval(b.vels.len() as u64);
    for v in &b.vels {
        if v.v_ew != 0 && v.v_ns != 0 {
            c.nontrivial(&(v, b.update, b.opts.u, b.opts.r));
            c.class(class);
        } else {
            c.class("no_information_component");
        }
        if v.vr == 0 {
            c.class("no_information_vrate");
        }
    }
    if let Err((i, m)) = check_batch(&b) {
        if !c.failed() {
            let single = Batch { vels: vec![b.vels[i]], ..b.clone() };
            let msg = match check_batch(&single) {
                Err((_, m2)) => m2,
                Ok(()) => m,
            };
            c.fail(msg, "c09:value", json!({"kind":"batch","b":single}));
        }
    } else if c.want_sample() {
        let v = &b.vels[b.vels.len() / 2];
        let r = velocity_ref(v.sub, v.s_ew, v.v_ew, v.s_ns, v.v_ns, v.s_vr, v.vr);
        c.sample(json!({"frame": bits::es(17, b.ca, addr_of(&b, b.vels.len()/2), bits::me_velocity(v)).hex(), "fields": v, "expected_gs": r.gs_exact, "expected_track": r.track, "expected_vrate": r.vrate, "path": if b.update {"update"} else {"create"}, "opts": b.opts.label()}));
    }
}

fn run(c: &mut Ctx) {
    let mut item = 0u64;
    let ctx_strat = (gen::opts_ur(), any::<bool>(), 1u32..255, 0u32..8, gen::vel_any());
    // axis sweeps
    for sub in [1u32, 2] {
        for axis in 0..2 {
            for signs in 0..4u32 {
                let (opts, update, hi, ca, tmpl) = c.draw(1, &ctx_strat).into_iter().next().unwrap();
                let others = c.draw(1024, gen::vel_any());
                let mine = c.mine(item);
                item += 1;
                if !mine {
                    continue;
                }
                let vels: Vec<Vel> = (0..1024u32)
                    .map(|m| {
                        let o = &others[m as usize];
                        let mut v = Vel { sub, s_ew: signs & 1, s_ns: signs >> 1, ..tmpl };
                        v.vr = o.vr;
                        v.s_vr = o.s_vr;
                        v.hdr = o.hdr;
                        v.dif = o.dif;
                        if axis == 0 {
                            v.v_ew = m;
                            v.v_ns = o.v_ns;
                        } else {
                            v.v_ns = m;
                            v.v_ew = o.v_ew;
                        }
                        v
                    })
                    .collect();
                run_batch(c, Batch { opts, update, hi, ca, vels }, "axis_sweep");
            }
        }
    }
    c.exhaustive("each velocity magnitude 0..1023 per axis x 4 sign combinations x subtype 1/2; all 2x512 vertical-rate codes");
    // boundary combinations
    {
        let (opts, update, hi, ca, tmpl) = c.draw(1, &ctx_strat).into_iter().next().unwrap();
        let mine = c.mine(item);
        item += 1;
        if mine {
            let b = [0u32, 1, 2, 1022, 1023];
            let mut vels = Vec::new();
            for sub in [1, 2] {
                for &e in &b {
                    for &n in &b {
                        for s in 0..4 {
                            vels.push(Vel { sub, s_ew: s & 1, v_ew: e, s_ns: s >> 1, v_ns: n, ..tmpl });
                        }
                    }
                }
            }
            run_batch(c, Batch { opts, update, hi, ca, vels }, "boundary_grid");
        }
    }
    // all vertical-rate codes, four contexts
    for k in 0..4 {
        let (opts, _, hi, ca, tmpl) = c.draw(1, &ctx_strat).into_iter().next().unwrap();
        let mine = c.mine(item);
        item += 1;
        if !mine {
            continue;
        }
        let mut vels = Vec::new();
        for s in 0..2 {
            for vr in 0..512 {
                vels.push(Vel { s_vr: s, vr, v_ew: tmpl.v_ew.max(1), v_ns: tmpl.v_ns.max(1), ..tmpl });
            }
        }
        run_batch(c, Batch { opts, update: k % 2 == 1, hi, ca, vels }, "vrate_sweep");
    }
    // critical pairs: component pairs whose track angle lies within 2e-4 deg of a whole degree (where a less
    // precise atan2 lands on the other side); found by scanning the whole grid with the reference
    {
        let mine = c.mine(item);
        item += 1;
        if mine {
            let mut vels = Vec::new();
            for e in 1..1024i64 {
                for n in 1..1024i64 {
                    let th = (e as f64).atan2(n as f64).to_degrees();
                    let fr = th - th.floor();
                    if (fr < 2e-4 || fr > 1.0 - 2e-4) && fr != 0.0 {
                        for s in 0..4u32 {
                            vels.push(Vel { sub: 1, hdr: 0, s_ew: s & 1, v_ew: e as u32 + 1, s_ns: s >> 1, v_ns: n as u32 + 1, vr_src: 0, s_vr: 0, vr: 5, rsv: 0, s_dif: 0, dif: 0 });
                        }
                    }
                }
            }
            vels.truncate(60_000);
            let (opts, update, hi, ca, _) = c.draw(1, &ctx_strat).into_iter().next().unwrap();
            run_batch(c, Batch { opts, update, hi, ca, vels }, "near_integer_track");
        }
    }
    // adjacency: each generated velocity squitter directly followed (next line, another aircraft) by a neighbour that
    // differs in one field (a sign, or a magnitude by one)
    for _ in 0..c.tier.pick(24usize, 96usize) {
        let (opts, update, hi, ca, _) = c.draw(1, &ctx_strat).into_iter().next().unwrap();
        let seeds = c.draw(500, (gen::vel_valid(), 0u32..7));
        let mine = c.mine(item);
        item += 1;
        if !mine {
            continue;
        }
        let mut vels = Vec::with_capacity(1000);
        for (v, k) in seeds {
            let mut w = v;
            match k {
                0 => w.s_ew ^= 1,
                1 => w.s_ns ^= 1,
                2 => w.s_vr ^= 1,
                3 => w.v_ew = if w.v_ew >= 1023 { 1022 } else { w.v_ew + 1 },
                4 => w.v_ns = if w.v_ns >= 1023 { 1022 } else { w.v_ns + 1 },
                5 => w.sub = 3 - w.sub,
                _ => w.vr = if w.vr >= 511 { 510 } else { w.vr + 1 },
            }
            vels.push(v);
            vels.push(w);
        }
        let _ = update;
        run_batch(c, Batch { opts, update: false, hi, ca, vels }, "one_field_neighbour_pairs");
    }
    // generated combinations
    let nb = c.tier.pick(320usize, 1024usize);
    for _ in 0..nb {
        let (opts, update, hi, ca, _) = c.draw(1, &ctx_strat).into_iter().next().unwrap();
        let vels = c.draw(1000, gen::vel_any());
        let mine = c.mine(item);
        item += 1;
        if mine {
            run_batch(c, Batch { opts, update, hi, ca, vels }, "generated");
        }
    }
    // thorough: complete grid for subtype 1 (and subtype 2 on a 4x coarser grid)
    if c.tier == Tier::Thorough {
        for s in 0..4u32 {
            for e in 0..1024u32 {
                let mine = c.mine(item);
                item += 1;
                if !mine {
                    continue;
                }
                let vels: Vec<Vel> = (0..1024u32).map(|n| Vel { sub: 1, hdr: 0, s_ew: s & 1, v_ew: e, s_ns: s >> 1, v_ns: n, vr_src: 0, s_vr: (n & 1), vr: (n * 7 + e) % 512, rsv: 0, s_dif: 0, dif: 0 }).collect();
                run_batch(c, Batch { opts: Opts::quiet().with_u(e % 2 == 1), update: e % 3 == 0, hi: 1 + (e % 200), ca: 5, vels }, "full_grid");
            }
        }
        c.exhaustive("complete 2x1024x2x1024 component grid for subtype 1");
    }
}

fn replay(c: &mut Ctx, case: &Value) {
    c.eval(1);
    let Ok(b) = serde_json::from_value::<Batch>(case["b"].clone()) else { return c.inconclusive("bad replay") };
    if let Err((_, m)) = check_batch(&b) {
        c.fail(m, "c09:value", case.clone());
    }
}
