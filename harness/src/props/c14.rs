//! C14 — printed rows render the table faithfully under their column headers.

use super::PropSpec;
use crate::alphabet;
use crate::cli;
use crate::ctx::Ctx;
use crate::gen;
use crate::refdec::wake_letter;
use crate::render::{self, Align};
use crate::rows::{self, RowSpec};
use crate::run::{self, Opts};
use proptest::prelude::*;
use serde_json::{json, Value};
use squitterator::{DisplayFlags, LegendHeaders};

pub fn spec() -> PropSpec {
    PropSpec {
        id: "C14",
        level: "exploration",
        rule: "(a) generated row states injected into the table (every optional column independently blank / typical / extreme-in-range / negative) x all 32 subsets of the -i groups aAews (with noise letters), printed by Planes::print and cut into cells by an independent column specification (name, width, alignment, group): header and separator equal the specification, groups present iff their letter is given, every cell shows the field's value (numbers at the displayed precision, right-aligned; text left-aligned; blank when unknown), and row, header and separator have identical display width when every value fits. (b) generated frame streams x flag subsets through the real reader with a refresh per frame (captured output; a share through the built CLI): every refresh = header, separator, one row per aircraft in the table, separator. Non-trivial = row with >= 1 optional group shown and >= half of its columns filled, or an all-blank row; distinct by hash of (row, flags)",
        assumptions: &["annotation characters in the separator position after ALT B, ALT S, VRATE, TRK, HDG (source markers) and before W (threat flag) are allowed", "LC may read 0 or 1 for a row injected just before printing"],
        workers: 16,
        also_nochk: false,
        fuzz_target: None,
        quick_budget_s: 900,
        thorough_budget_s: 3600,
        min_nontrivial_quick: 20_000,
        min_nontrivial_thorough: 400_000,
        run,
        replay,
    }
}

#[derive(Debug, Clone, PartialEq)]
enum Exp {
    Blank,
    Text(String),
    Int(i64),
    Num(f64, usize),
    Lc,
}

fn hex_age(a: Option<i64>) -> char {
    match a {
        None => ' ',
        Some(s) => std::char::from_digit(((s / 10) & 15) as u32, 16).unwrap().to_ascii_uppercase(),
    }
}

fn expected(col: &str, r: &RowSpec) -> Exp {
    let int = |v: Option<i64>| v.map(Exp::Int).unwrap_or(Exp::Blank);
    let shown_pos = r.lat != 0.0 && r.lon != 0.0;
    match col {
        "ICAO" => Exp::Text(format!("{:06X}", r.icao)),
        "RG" => Exp::Text(r.reg.clone()),
        "SQWK" => r.squawk.map(|s| Exp::Text(format!("{:04}", s))).unwrap_or(Exp::Blank),
        "W" => wake_letter(r.category.0, r.category.1).map(|c| Exp::Text(c.to_string())).unwrap_or(Exp::Blank),
        "CALLSIGN" => match &r.ais {
            Some(s) if !s.is_empty() => Exp::Text(s.clone()),
            _ => Exp::Blank,
        },
        "LATITUDE" => if shown_pos { Exp::Num(r.lat, 5) } else { Exp::Blank },
        "LONGITUDE" => if shown_pos { Exp::Num(r.lon, 5) } else { Exp::Blank },
        "DIST" => r.dist.map(|d| Exp::Num(d, 1)).unwrap_or(Exp::Blank),
        "ALT B" => int(r.altitude.map(|v| v as i64)),
        "ALT G" => int(r.altitude_gnss.map(|v| v as i64)),
        "ALT S" => int(r.selected_altitude.map(|v| v as i64)),
        "BARO" => int(r.baro.map(|v| v as i64)),
        "VRATE" => int(r.vrate.map(|v| v as i64)),
        "TRK" => int(r.track.map(|v| v as i64)),
        "HDG" => int(r.heading.map(|v| v as i64)),
        "GSP" => int(r.grspeed.map(|v| v as i64)),
        "TAS" => int(r.tas.map(|v| v as i64)),
        "IAS" => int(r.ias.map(|v| v as i64)),
        "MACH" => r.mach.map(|m| Exp::Num(m, 2)).unwrap_or(Exp::Blank),
        "RLL" => int(r.roll.map(|v| v as i64)),
        "TAR" => int(r.tar.map(|v| v as i64)),
        "TEMP" => r.temperature.map(|t| Exp::Num(t, 1)).unwrap_or(Exp::Blank),
        "WND" => int(r.wind.map(|w| w.0 as i64)),
        "WDR" => int(r.wind.map(|w| w.1 as i64)),
        "HUM" => int(r.humidity.map(|v| v as i64)),
        "PRES" => int(r.pressure.map(|v| v as i64)),
        "TB" => int(r.turbulence.map(|v| v as i64)),
        "VX" => Exp::Text(format!("{}{}", r.category.0, r.category.1)),
        "DF" => if r.last_df != 0 { Exp::Int(r.last_df as i64) } else { Exp::Blank },
        "TC" => if r.last_tc != 0 { Exp::Int(r.last_tc as i64) } else { Exp::Blank },
        "V" => int(r.version.map(|v| v as i64)),
        "S" => if r.ss == ' ' { Exp::Blank } else { Exp::Text(r.ss.to_string()) },
        "PTH" => {
            let s: String = [hex_age(r.pos_age), hex_age(r.trk_age), hex_age(r.hdg_age)].iter().collect();
            if s.trim().is_empty() { Exp::Blank } else { Exp::Text(s) }
        }
        "LC" => Exp::Lc,
        _ => Exp::Blank,
    }
}

fn fits(e: &Exp, width: usize) -> bool {
    match e {
        Exp::Blank | Exp::Lc => true,
        Exp::Text(s) => s.chars().count() <= width,
        Exp::Int(v) => v.to_string().len() <= width,
        Exp::Num(v, d) => format!("{:.*}", *d, v).len() <= width,
    }
}

fn check_cell(name: &str, width: usize, align: Align, cell: &str, e: &Exp, slow: bool) -> Result<(), String> {
    let t = cell.trim();
    match e {
        Exp::Blank => {
            if !t.is_empty() {
                return Err(format!("column {} shows {:?} but the value is unknown (blank expected)", name, cell));
            }
        }
        Exp::Lc => {
            // the row was last heard 0.6 s before printing: 0 whole seconds (a slow run may legitimately show more)
            let ok = if slow { matches!(t, "0" | "1" | "2" | "3") } else { t == "0" };
            if !ok {
                return Err(format!("column LC shows {:?} for a row heard 0.6 s ago", cell));
            }
        }
        Exp::Text(_) if name == "PTH" && slow => {}
        Exp::Text(s) => {
            let shown = if name == "PTH" { cell.trim_end().to_string() } else { t.to_string() };
            let want = if name == "PTH" { s.trim_end().to_string() } else { s.clone() };
            if shown != want {
                return Err(format!("column {} shows {:?}, expected {:?}", name, cell, s));
            }
            if align == Align::Left && name != "PTH" && cell.starts_with(' ') && s.chars().count() <= width {
                return Err(format!("column {} is text and must be left-aligned, got {:?}", name, cell));
            }
        }
        Exp::Int(v) => {
            match t.parse::<i64>() {
                Ok(x) if x == *v => {}
                _ => return Err(format!("column {} shows {:?}, expected {}", name, cell, v)),
            }
            if cell.ends_with(' ') && v.to_string().len() <= width {
                return Err(format!("column {} is numeric and must be right-aligned, got {:?}", name, cell));
            }
        }
        Exp::Num(v, d) => {
            let tol = 0.5 * 10f64.powi(-(*d as i32)) + 1e-9;
            match t.parse::<f64>() {
                Ok(x) if (x - v).abs() <= tol => {}
                _ => return Err(format!("column {} shows {:?}, expected {:.*}", name, cell, *d, v)),
            }
            let decimals = t.split('.').nth(1).map(|x| x.len()).unwrap_or(0);
            if decimals != *d {
                return Err(format!("column {} shows {:?}: {} decimals expected", name, cell, d));
            }
            if cell.ends_with(' ') {
                return Err(format!("column {} is numeric and must be right-aligned, got {:?}", name, cell));
            }
        }
    }
    Ok(())
}

fn groups_of(flags: &str) -> String {
    // the group letters that are switched on
    "aAews".chars().filter(|c| flags.contains(*c)).collect()
}

pub fn check_rows(flags: &str, rows_in: &[RowSpec]) -> Result<(), String> {
    let g = groups_of(flags);
    let (sh, ss) = render::spec_header(&g);
    let lh = LegendHeaders::from_display_flags(&DisplayFlags::from_arg_str(flags));
    if lh.header.trim_end_matches('\n') != sh {
        return Err(format!("-i {:?}: header is {:?}, the column specification gives {:?}", flags, lh.header, sh));
    }
    if lh.separator.trim_end_matches('\n') != ss {
        return Err(format!("-i {:?}: separator is {:?}, the column specification gives {:?}", flags, lh.separator, ss));
    }
    let t = run::new_table();
    let t0 = std::time::Instant::now();
    rows::inject(&t, rows_in);
    let o = Opts { i: vec![flags.to_string()], ..Opts::default() };
    let printed = render::print_table(&t, &o);
    let slow = t0.elapsed().as_millis() > 250;
    if printed.len() != rows_in.len() {
        return Err(format!("{} rows in the table, {} lines printed", rows_in.len(), printed.len()));
    }
    let cols = render::active_columns(&g);
    for r in rows_in {
        let id = format!("{:06X}", r.icao);
        let Some(line) = printed.iter().find(|l| l.starts_with(&id)) else {
            return Err(format!("row {} not printed", id));
        };
        let all_fit = cols.iter().all(|c| fits(&expected(c.name, r), c.width));
        if all_fit {
            let (wl, wh) = (line.chars().count(), sh.chars().count());
            if wl != wh {
                return Err(format!("-i {:?}: row {:?} is {} characters wide, header and separator are {}", flags, line, wl, wh));
            }
        } else {
            continue; // a value that does not fit shifts the rest of the row: cells cannot be cut by position
        }
        let Some(cells) = render::cells(&g, line) else {
            return Err(format!("-i {:?}: row {:?} is shorter than its columns", flags, line));
        };
        for c in &cols {
            check_cell(c.name, c.width, c.align, &cells[c.name], &expected(c.name, r), slow).map_err(|m| format!("-i {:?}, row {:?}: {}", flags, line, m))?;
        }
    }
    Ok(())
}

fn flags_strategy() -> BoxedStrategy<String> {
    // letters may be repeated and come in any order (several -i values are concatenated by the program)
    (0u32..32, "[xzq1B]{0,2}", proptest::collection::vec(0usize..5, 0..4), any::<bool>()).prop_map(|(m, noise, repeats, rev)| {
        let mut s = String::new();
        for (i, ch) in "aAews".chars().enumerate() {
            if m & (1 << i) != 0 {
                s.push(ch);
            }
        }
        let present: Vec<char> = s.chars().collect();
        for r in repeats {
            if !present.is_empty() {
                s.push(present[r % present.len()]);
            }
        }
        let s = if rev { s.chars().rev().collect::<String>() } else { s };
        format!("{}{}", s, noise)
    }).boxed()
}

fn filled_ratio(r: &RowSpec, g: &str) -> (usize, usize) {
    let cols = render::active_columns(g);
    let filled = cols.iter().filter(|c| !matches!(expected(c.name, r), Exp::Blank)).count();
    (filled, cols.len())
}

/// (b) structure of every refresh printed by the reader
fn check_stream(flags: &str, lines: &[String], via_cli: bool, count: bool) -> Result<u64, String> {
    check_stream_d(flags, lines, via_cli, count, 1_000_000)
}

/// with delete_after 0 the table is emptied by every sweep: rows come and go, the structure of a refresh must hold
fn check_stream_d(flags: &str, lines: &[String], via_cli: bool, count: bool, d: i64) -> Result<u64, String> {
    let g = groups_of(flags);
    let (sh, ss) = render::spec_header(&g);
    // through the command line the letters are given as two -i options whenever there are at least two of them
    let fl = if flags.is_empty() { "x".to_string() } else { flags.to_string() };
    let chars: Vec<char> = fl.chars().collect();
    let i = if via_cli && chars.len() >= 2 {
        let k = 1 + lines.len() % (chars.len() - 1);
        vec![chars[..k].iter().collect::<String>(), chars[k..].iter().collect::<String>()]
    } else {
        vec![fl]
    };
    let o = Opts { i, upd: -1, c: count, d, ..Opts::default() };
    let out = if via_cli {
        let p = run::tmp_dir().join(format!("c14-{}.txt", std::process::id()));
        std::fs::write(&p, lines.join("\n") + "\n").map_err(|e| e.to_string())?;
        let r = cli::run_file(true, &o, &p.to_string_lossy(), &[], true, std::time::Duration::from_secs(60)).map_err(|e| e.to_string())?;
        if r.timed_out { return Err("TIMEOUT".into()); }
        if r.status != Some(0) { return Err(format!("CLI ended with {:?}/{:?}", r.status, r.signal)); }
        String::from_utf8_lossy(&r.stdout).to_string()
    } else {
        let t = run::new_table();
        let (r, out) = run::run_bytes_captured(&o, &t, (lines.join("\n") + "\n").as_bytes());
        r.map_err(|e| format!("reader failed: {:?}", e))?;
        out
    };
    let (_, refreshes) = cli::parse_refreshes(&out);
    if refreshes.len() != lines.len() {
        return Err(format!("{} well-formed frames were fed with update=-1 but {} refreshes were printed", lines.len(), refreshes.len()));
    }
    let mut seen = std::collections::BTreeSet::new();
    for (k, (r, l)) in refreshes.iter().zip(lines.iter()).enumerate() {
        let f = crate::bits::Frame::from_hex(l).ok_or("internal")?;
        seen.insert(format!("{:06X}", f.address()));
        if r.header != sh || r.separator != ss || r.footer_separator.as_deref() != Some(ss.as_str()) {
            return Err(format!("refresh {} with -i {:?}: header/separator/footer are {:?} / {:?} / {:?}, specification gives {:?} / {:?}", k, flags, r.header, r.separator, r.footer_separator, sh, ss));
        }
        let ids: Vec<String> = r.rows.iter().map(|x| x.chars().take(6).collect()).collect();
        let mut sorted = ids.clone();
        sorted.sort();
        sorted.dedup();
        if d == 0 {
            // rows expire at every sweep: each printed line must still be a row of an aircraft heard so far, each once
            if sorted.len() != ids.len() || !ids.iter().all(|x| seen.contains(x)) || r.rows.iter().any(|x| x.trim().is_empty()) {
                return Err(format!("refresh {} with delete_after 0: lines between the separators are {:?} (aircraft heard so far {:?})", k, r.rows, seen));
            }
            continue;
        }
        if sorted.len() != ids.len() || sorted.iter().cloned().collect::<std::collections::BTreeSet<_>>() != seen {
            return Err(format!("refresh {}: rows {:?} but the table holds {:?}", k, ids, seen));
        }
    }
    Ok(refreshes.len() as u64)
}

fn run(c: &mut Ctx) {
    // all 32 flag subsets x generated rows
    let per = c.tier.pick(150usize, 2000usize);
    let mut idx = 0u64;
    for m in 0..32u32 {
        let flags: String = "aAews".chars().enumerate().filter(|(i, _)| m & (1 << i) != 0).map(|(_, ch)| ch).collect();
        for _ in 0..per {
            let rows_in = c.draw(1, proptest::collection::vec(rows::row_strategy(1u32..0xFFFFFF), 1..12)).into_iter().next().unwrap_or_default();
            let mine = c.mine(idx);
            idx += 1;
            if !mine {
                continue;
            }
            // distinct addresses
            let mut rows_in = rows_in;
            rows_in.sort_by_key(|r| r.icao);
            rows_in.dedup_by_key(|r| r.icao);
            c.eval(rows_in.len() as u64);
            for r in &rows_in {
                let (f, n) = filled_ratio(r, &flags);
                if (m != 0 && f * 2 >= n) || f <= 4 {
                    c.nontrivial(&(format!("{:?}", r), m));
                    c.class(if f <= 4 { "all_blank_row" } else { "well_filled_row" });
                } else {
                    c.class("other_row");
                }
            }
            if let Err(e) = check_rows(&flags, &rows_in) {
                if !c.failed() {
                    // shrink to a single row if possible
                    let single = rows_in.iter().find(|r| check_rows(&flags, std::slice::from_ref(r)).is_err()).cloned();
                    let (rs, msg) = match single {
                        Some(r) => { let m = check_rows(&flags, std::slice::from_ref(&r)).err().unwrap_or(e); (vec![r], m) }
                        None => (rows_in.clone(), e),
                    };
                    c.fail(msg, "c14:render", json!({"kind":"rows","flags":flags,"rows":rs}));
                }
            } else if c.want_sample() && m == 31 {
                let t = run::new_table();
                rows::inject(&t, &rows_in[..1]);
                let o = Opts { i: vec![flags.clone()], ..Opts::default() };
                c.sample(json!({"flags": flags, "header": render::spec_header(&flags).0, "printed": render::print_table(&t, &o)}));
            }
        }
    }
    c.exhaustive("all 32 subsets of the -i groups aAews");
    if c.failed() {
        return;
    }
    // noise letters + rows via proptest (shrinks)
    let cases = c.tier.pick(10_000, 200_000);
    let strat = (flags_strategy(), proptest::collection::vec(rows::row_strategy(1u32..0xFFFFFF), 1..6));
    let r = c.proptest(cases, strat, |c, (flags, rows_in), counting| {
        let mut rs = rows_in.clone();
        rs.sort_by_key(|r| r.icao);
        rs.dedup_by_key(|r| r.icao);
        check_rows(flags, &rs)?;
        if counting {
            c.eval(rs.len() as u64);
            c.class("flags_with_noise_letters");
            c.nontrivial(&(format!("{:?}", rs), flags.clone()));
        }
        Ok(())
    });
    if let Some(((flags, rows_in), m)) = r {
        c.fail(m, "c14:render", json!({"kind":"rows","flags":flags,"rows":rows_in}));
        return;
    }
    // (b) refresh structure
    let cases = c.tier.pick(1_500, 40_000);
    let strat = (flags_strategy(), proptest::collection::vec((0usize..4).prop_flat_map(|a| alphabet::frame_any(gen::POOL[a])), 1..25), prop::bool::weighted(0.08), any::<bool>());
    let r = c.proptest(cases, strat, |c, (flags, frames, via_cli, count), counting| {
        let lines: Vec<String> = frames.iter().map(|f| f.hex()).collect();
        let d = if lines.len() % 4 == 3 { 0 } else { 1_000_000 };
        match check_stream_d(flags, &lines, *via_cli, *count, d) {
            Ok(n) => {
                if counting {
                    c.eval(n);
                    c.class(if *via_cli { "refresh_structure_cli" } else { "refresh_structure_reader" });
                }
                Ok(())
            }
            Err(e) if e == "TIMEOUT" => {
                c.inconclusive("CLI timeout");
                Ok(())
            }
            Err(e) => Err(e),
        }
    });
    if let Some(((flags, frames, via_cli, count), m)) = r {
        let d = if frames.len() % 4 == 3 { 0 } else { 1_000_000 };
        c.fail(m, "c14:refresh", json!({"kind":"stream","flags":flags,"lines":frames.iter().map(|f| f.hex()).collect::<Vec<_>>(),"cli":via_cli,"count":count,"d":d}));
    }
}

fn replay(c: &mut Ctx, case: &Value) {
    c.eval(1);
    let flags = case["flags"].as_str().unwrap_or("").to_string();
    match case["kind"].as_str() {
        Some("stream") => {
            let lines: Vec<String> = serde_json::from_value(case["lines"].clone()).unwrap_or_default();
            if let Err(m) = check_stream_d(&flags, &lines, case["cli"].as_bool().unwrap_or(false), case["count"].as_bool().unwrap_or(false), case["d"].as_i64().unwrap_or(1_000_000)) {
                if m != "TIMEOUT" {
                    c.fail(m, "c14:refresh", case.clone());
                }
            }
        }
        _ => {
            let Ok(rows_in) = serde_json::from_value::<Vec<RowSpec>>(case["rows"].clone()) else { return c.inconclusive("bad replay") };
            if let Err(m) = check_rows(&flags, &rows_in) {
                c.fail(m, "c14:render", case.clone());
            }
        }
    }
}
