//! C11 — each parameter shows the latest value its own frames carried; no cross-talk.

use super::c10::{default_snap, soundness, Model};
use super::PropSpec;
use crate::alphabet::{self, airpos_me, Step};
use crate::bits::{self, Frame, Vel};
use crate::ctx::{Ctx, Tier};
use crate::gen;
use crate::refdec::*;
use crate::run::{self, Opts, Snap};
use proptest::prelude::*;
use serde_json::{json, Value};
use std::collections::BTreeMap;

pub fn spec() -> PropSpec {
    PropSpec {
        id: "C11",
        level: "exploration",
        rule: "histories over the alphabet of well-formed frames of every supported format: (1) bounded-exhaustive - every sequence of length <= 2 (thorough: <= 3) over a fixed 46-symbol alphabet for one aircraft (a second aircraft is present as bystander) under the four -U/-R combinations; (2) proptest sequences of length 3..50 for 1..4 aircraft with time steps 0..15 s. One reader run per frame on a persistent table; after every prefix a reference transition oracle checks every modelled parameter of the addressed row against its set of acceptable values (valid carried value => that value; carried but invalid => blank or previous; not carried => unchanged; creating DF20/21 may contribute the address only), every other row must be bit-identical, and re-feeding the same frame must leave the row identical (all 47 fields, wall-clock stamps excluded); finally the whole history fed in one reader run must give the same table as feeding it frame by frame. Modelled: altitude, squawk, callsign+category, ground speed/track, vertical rate, position (valid close pair decodes, otherwise unchanged), surveillance status, ADS-B version, capability, Comm-B groups (C10 rules). Non-trivial = sequence in which >= 2 different formats hit the same row and >= 1 parameter is overwritten or deliberately left alone; distinct by hash",
        assumptions: &[
            "unconstrained (anything accepted, counted in 'excluded'): Gillham and M=1 altitude codes, DF18 payloads, track after a surface squitter, position while a CPR slot holds a surface squitter or the two slots come from positions more than 1 degree apart or lie within 1e-6 deg of an NL boundary, vertical rate / ground speed for TC19 subtypes other than 1-4",
            "DF17 may or may not update the recorded capability",
            "elapsed time is simulated by shifting the stored stamps; a history that takes more than 0.9 s of real time is discarded",
        ],
        workers: 16,
        also_nochk: false,
        fuzz_target: None,
        quick_budget_s: 900,
        thorough_budget_s: 5400,
        min_nontrivial_quick: 5_000,
        min_nontrivial_thorough: 200_000,
        run,
        replay,
    }
}

#[derive(Clone, Copy, Debug)]
struct Slot {
    yz: u32,
    xz: u32,
    t: i64,
    surface: bool,
}

pub struct AcModel {
    commb: Model,
    slots: [Option<Slot>; 2],
}

#[derive(Default)]
pub struct Stats {
    pub steps: u64,
    pub overwrites: u64,
    pub kept: u64,
    pub formats_on_row: BTreeMap<u32, std::collections::BTreeSet<u32>>,
    pub excluded: Vec<&'static str>,
}

fn same_opt<T: PartialEq>(a: &Option<T>, b: &Option<T>) -> bool {
    a == b
}

/// acceptable-set check helper
fn expect_in<T: PartialEq + std::fmt::Debug>(name: &str, got: &T, acceptable: &[T], why: &str) -> Result<(), String> {
    if acceptable.iter().any(|a| a == got) {
        Ok(())
    } else {
        Err(format!("{} is {:?}, acceptable {:?} ({})", name, got, acceptable, why))
    }
}

fn ais_norm(a: &Option<String>) -> String {
    a.clone().unwrap_or_default()
}

/// transition oracle for one frame applied to the row `b` (None when the frame creates the row)
#[allow(clippy::too_many_arguments)]
fn transition(_opts: &Opts, m: &mut AcModel, now: i64, f: &Frame, before: Option<&Snap>, a: &Snap, st: &mut Stats) -> Result<(), String> {
    let created = before.is_none();
    let d = default_snap();
    let b = before.unwrap_or(&d);
    let df = f.df();
    let commb_create = created && (df == 20 || df == 21);
    // unchanged helpers --------------------------------------------------------------------
    let mut unchanged: Vec<&'static str> = vec!["altitude", "squawk", "callsign", "category", "gs", "track", "vrate", "position", "ss", "version", "cap"];
    let carried = |u: &mut Vec<&'static str>, name: &str| u.retain(|x| *x != name);

    // ---- altitude
    let mut alt_rule = |code_alt: Alt, gillham: bool, st: &mut Stats, u: &mut Vec<&'static str>| -> Result<(), String> {
        u.retain(|x| *x != "altitude");
        if gillham {
            st.excluded.push("Gillham altitude code (known finding class)");
            return Ok(());
        }
        match code_alt {
            Alt::Unconstrained => {
                st.excluded.push("M=1 altitude code");
                Ok(())
            }
            Alt::Feet(v) => {
                let mut acc = vec![Some(v)];
                if commb_create { acc.push(None); }
                if b.altitude != Some(v) { st.overwrites += 1; }
                expect_in("altitude", &a.altitude, &acc, "valid altitude code carried by this frame")
            }
            Alt::Blank => {
                st.kept += 1;
                expect_in("altitude", &a.altitude, &[None, b.altitude], "frame carries no valid altitude: blank or previous")
            }
        }
    };

    match df {
        0 | 16 => {}
        4 | 20 => {
            let ac = f.get(20, 32) as u32;
            let g = ac != 0 && (ac >> 6) & 1 == 0 && (ac >> 4) & 1 == 0;
            alt_rule(alt_ac13(ac), g, st, &mut unchanged)?;
        }
        5 | 21 => {
            carried(&mut unchanged, "squawk");
            let v = squawk_id13(f.get(20, 32) as u32);
            let mut acc = vec![Some(v)];
            if commb_create { acc.push(None); }
            if b.squawk != Some(v) { st.overwrites += 1; }
            expect_in("squawk", &a.squawk, &acc, "identity code carried by this frame")?;
        }
        11 => {
            carried(&mut unchanged, "cap");
            let ca = f.get(6, 8) as u32;
            m.commb.on_df11(ca);
            expect_in("capability", &a.cap0, &[ca], "DF11 carries the capability")?;
        }
        18 => {
            unchanged.clear();
            st.excluded.push("DF18 payload");
            // a DF18 position payload may or may not occupy a CPR slot: that slot is undetermined from now on
            let me = f.get(33, 88);
            let tc = (me >> 51) as u32;
            if (5..=18).contains(&tc) {
                let odd = ((me >> 34) & 1) as usize;
                m.slots[odd] = Some(Slot { yz: 0, xz: 0, t: now, surface: true });
            }
        }
        17 => {
            carried(&mut unchanged, "cap");
            let ca = f.get(6, 8) as u32;
            m.commb.on_df17(ca);
            expect_in("capability", &a.cap0, &[ca, b.cap0], "DF17 header capability: recorded or ignored")?;
            let me = f.get(33, 88);
            let tc = (me >> 51) as u32;
            let sub = ((me >> 48) & 7) as u32;
            match tc {
                1..=4 => {
                    carried(&mut unchanged, "callsign");
                    carried(&mut unchanged, "category");
                    let want = callsign(&chars_of_me(me));
                    if ais_norm(&b.ais) != want { st.overwrites += 1; }
                    expect_in("callsign", &ais_norm(&a.ais), &[want], "identification squitter")?;
                    expect_in("category", &a.category, &[(tc, sub)], "identification squitter")?;
                }
                5..=8 => {
                    carried(&mut unchanged, "altitude");
                    carried(&mut unchanged, "track");
                    carried(&mut unchanged, "position");
                    st.excluded.push("track / position after a surface squitter");
                    expect_in("altitude", &a.altitude, &[None], "a surface squitter blanks the barometric altitude")?;
                    let odd = ((me >> 34) & 1) as usize;
                    m.slots[odd] = Some(Slot { yz: ((me >> 17) & 0x1FFFF) as u32, xz: (me & 0x1FFFF) as u32, t: now, surface: true });
                }
                9..=18 => {
                    let ac = ((me >> 36) & 0xFFF) as u32;
                    let g = ac != 0 && (ac >> 4) & 1 == 0;
                    alt_rule(alt_ac12(ac), g, st, &mut unchanged)?;
                    carried(&mut unchanged, "ss");
                    let ss = ['N', 'P', 'T', 'S'][((me >> 49) & 3) as usize];
                    expect_in("surveillance status", &a.surveillance_status, &[ss], "airborne position squitter")?;
                    // position
                    carried(&mut unchanged, "position");
                    let odd = ((me >> 34) & 1) as usize;
                    m.slots[odd] = Some(Slot { yz: ((me >> 17) & 0x1FFFF) as u32, xz: (me & 0x1FFFF) as u32, t: now, surface: false });
                    position_rule(m, odd, b, a, st)?;
                }
                19 => {
                    carried(&mut unchanged, "vrate");
                    carried(&mut unchanged, "gs");
                    carried(&mut unchanged, "track");
                    let g = |s: u32, e: u32| ((me >> (56 - e)) & ((1u64 << (e - s + 1)) - 1)) as u32;
                    let r = velocity_ref(sub, g(14, 14), g(15, 24), g(25, 25), g(26, 35), g(37, 37), g(38, 46));
                    match sub {
                        1 | 2 => {
                            match (&r.gs_exact, &r.track) {
                                (Some(gs), Some(tr)) => {
                                    let ok_gs = a.grspeed.map(|o| if sub == 2 { (o as i64 - *gs as i64).abs() <= 4 } else { o == *gs }).unwrap_or(false);
                                    if !ok_gs {
                                        return Err(format!("ground speed is {:?}, TC19 carries {}", a.grspeed, gs));
                                    }
                                    if !a.track.map(|t| tr.contains(&t)).unwrap_or(false) {
                                        return Err(format!("track is {:?}, TC19 carries {:?}", a.track, tr));
                                    }
                                    if b.grspeed != a.grspeed { st.overwrites += 1; }
                                }
                                _ => {
                                    st.kept += 1;
                                    expect_in("ground speed", &a.grspeed, &[None, b.grspeed], "velocity component 0 = no information")?;
                                    expect_in("track", &a.track, &[None, b.track], "velocity component 0 = no information")?;
                                }
                            }
                            match r.vrate {
                                Some(v) => expect_in("vertical rate", &a.vrate, &[Some(v)], "TC19 vertical rate")?,
                                None => expect_in("vertical rate", &a.vrate, &[None, b.vrate], "vertical-rate field 0 = no information")?,
                            }
                        }
                        3 | 4 => {
                            expect_in("ground speed", &a.grspeed, &[b.grspeed], "TC19 airspeed subtypes carry no ground speed: unchanged")?;
                            expect_in("track", &a.track, &[b.track], "TC19 airspeed subtypes carry no ground track: unchanged")?;
                            match r.vrate {
                                Some(v) => expect_in("vertical rate", &a.vrate, &[Some(v)], "TC19 vertical rate")?,
                                None => expect_in("vertical rate", &a.vrate, &[None, b.vrate], "vertical-rate field 0 = no information")?,
                            }
                        }
                        _ => {
                            st.excluded.push("TC19 reserved subtype (vertical rate unconstrained)");
                            expect_in("ground speed", &a.grspeed, &[b.grspeed], "reserved TC19 subtype carries no ground speed: unchanged")?;
                            expect_in("track", &a.track, &[b.track], "reserved TC19 subtype carries no ground track: unchanged")?;
                        }
                    }
                }
                20..=22 => {
                    carried(&mut unchanged, "ss");
                    let ss = ['N', 'P', 'T', 'S'][((me >> 49) & 3) as usize];
                    expect_in("surveillance status", &a.surveillance_status, &[ss], "GNSS-height position squitter")?;
                }
                31 => {
                    carried(&mut unchanged, "version");
                    let v = ((me >> 13) & 7) as u32;
                    expect_in("ADS-B version", &a.adsb_version, &[Some(v)], "operational status squitter")?;
                }
                _ => {}
            }
        }
        _ => {}
    }
    if df == 20 || df == 21 {
        let mb = f.get(33, 88);
        // Comm-B groups by the C10 rules (callsign, ground speed, track, vertical rate are among them)
        for n in ["callsign", "gs", "track", "vrate"] {
            carried(&mut unchanged, n);
        }
        soundness(&m.commb, mb, b, a, f)?;
        m.commb.on_commb(mb, created);
    }
    // parameters this frame does not carry must be unchanged
    for n in unchanged {
        let same = match n {
            "altitude" => same_opt(&a.altitude, &b.altitude),
            "squawk" => same_opt(&a.squawk, &b.squawk),
            "callsign" => ais_norm(&a.ais) == ais_norm(&b.ais),
            "category" => a.category == b.category,
            "gs" => a.grspeed == b.grspeed,
            "track" => a.track == b.track,
            "vrate" => a.vrate == b.vrate,
            "position" => a.lat == b.lat && a.lon == b.lon && a.dist == b.dist,
            "ss" => a.surveillance_status == b.surveillance_status,
            "version" => a.adsb_version == b.adsb_version,
            "cap" => a.cap0 == b.cap0,
            _ => true,
        };
        if !same {
            return Err(format!("{} changed although a DF{} frame does not carry it", n, df));
        }
    }
    Ok(())
}

fn near_boundary(rlat: f64) -> bool {
    let x = rlat.abs();
    (2..=59).any(|n| (nl_boundary(n) - x).abs() < 1e-6) || (x - 87.0).abs() < 1e-6
}

fn position_rule(m: &AcModel, newest: usize, b: &Snap, a: &Snap, st: &mut Stats) -> Result<(), String> {
    let unchanged = a.lat == b.lat && a.lon == b.lon;
    let (Some(s0), Some(s1)) = (m.slots[0], m.slots[1]) else {
        return if unchanged { Ok(()) } else { Err("position changed after a single position frame (other CPR slot never received)".into()) };
    };
    if s0.surface || s1.surface {
        st.excluded.push("track / position after a surface squitter");
        return Ok(());
    }
    let nonzero = s0.yz != 0 && s0.xz != 0 && s1.yz != 0 && s1.xz != 0;
    // signed virtual gap from the older slot to the frame just received; the real gap is v plus a few real
    // milliseconds, so after the clock stepped back (v < 0) a virtual gap of exactly -10 s is a real gap just under 10 s
    let slots = [s0, s1];
    let v = slots[newest].t - slots[1 - newest].t;
    let gap = v.abs();
    let within = if v >= 0 { v < 10 } else { -v <= 10 };
    if !nonzero || !within {
        return if unchanged { Ok(()) } else { Err(format!("position changed although the even/odd pair is not valid (gap {} s, zero field: {})", gap, !nonzero)) };
    }
    // rlat of both frames
    let j = ((59.0 * s0.yz as f64 - 60.0 * s1.yz as f64) / NB17 + 0.5).floor();
    let jm = |n: f64| j - n * (j / n).floor();
    let mut r0 = 6.0 * (jm(60.0) + s0.yz as f64 / NB17);
    let mut r1 = (360.0 / 59.0) * (jm(59.0) + s1.yz as f64 / NB17);
    if r0 >= 270.0 { r0 -= 360.0; }
    if r1 >= 270.0 { r1 -= 360.0; }
    if (r0 - r1).abs() > 1.0 || r0.abs() > 87.0 || r1.abs() > 87.0 || near_boundary(r0) || near_boundary(r1) {
        st.excluded.push("CPR pair from distant positions / near a zone boundary / beyond 87 deg");
        return Ok(());
    }
    match cpr_global(s0.yz, s0.xz, s1.yz, s1.xz, newest == 1) {
        None => {
            if unchanged { Ok(()) } else { Err("position changed although the pair straddles two latitude zones".into()) }
        }
        Some((la, lo)) => {
            // longitudes of a valid close pair: the two frames must also agree on the longitude zone; skip when the
            // decoded longitudes of the two anchors differ by more than 1 degree (distant origins)
            if let Some((_, lo_other)) = cpr_global(s0.yz, s0.xz, s1.yz, s1.xz, newest != 1) {
                let dl = (lo - lo_other).abs();
                if dl > 1.0 && dl < 359.0 {
                    st.excluded.push("CPR pair from distant positions / near a zone boundary / beyond 87 deg");
                    return Ok(());
                }
            }
            let err = haversine_km(a.lat_f(), a.lon_f(), la, lo) * 1000.0;
            if err <= 20.0 {
                st.overwrites += 1;
                Ok(())
            } else {
                Err(format!("valid even/odd pair decodes to {:.5},{:.5} but the row shows {:.5},{:.5}", la, lo, a.lat_f(), a.lon_f()))
            }
        }
    }
}

pub fn check_history(opts: &Opts, steps: &[Step], st: &mut Stats) -> Result<(), String> {
    let t = run::new_table();
    let mut models: BTreeMap<u32, AcModel> = BTreeMap::new();
    let mut now = 0i64;
    let started = std::time::Instant::now();
    for (i, s) in steps.iter().enumerate() {
        let addr = gen::POOL[s.ac];
        run::shift_time(&t, s.dt);
        now += s.dt;
        let before = run::snapshot(&t);
        run::run_lines(opts, &t, &[s.frame.hex()]).map_err(|e| format!("step {}: reader failed on {}: {:?}", i, s.frame.hex(), e))?;
        let after = run::snapshot(&t);
        let ctx = |m: String| format!("step {} (DF{} frame {} for {:06X}, {}): {}", i, s.frame.df(), s.frame.hex(), addr, opts.label(), m);
        // bystanders
        for (k, r) in &before {
            if *k != addr && after.get(k) != Some(r) {
                return Err(ctx(format!("row {:06X} of another aircraft changed: {:?}", k, after.get(k).map(|x| r.diff(x)))));
            }
        }
        for k in after.keys() {
            if *k != addr && !before.contains_key(k) {
                return Err(ctx(format!("a row for {:06X} appeared", k)));
            }
        }
        let Some(a) = after.get(&addr) else {
            return Err(ctx("no row for the addressed aircraft".into()));
        };
        let m = models.entry(addr).or_insert_with(|| AcModel { commb: Model::new(opts.r), slots: [None, None] });
        st.steps += 1;
        st.formats_on_row.entry(addr).or_default().insert(s.frame.df() * 100 + if s.frame.df() == 17 { (s.frame.get(33, 37)) as u32 } else { 0 });
        transition(opts, m, now, &s.frame, before.get(&addr), a, st).map_err(ctx)?;
        // idempotence: the same frame again, no time step
        if s.frame.df() != 18 && before.contains_key(&addr) {
            run::run_lines(opts, &t, &[s.frame.hex()]).map_err(|e| ctx(format!("reader failed on the repeated frame: {:?}", e)))?;
            let again = run::snapshot(&t);
            let a2 = again.get(&addr).ok_or_else(|| ctx("row vanished on re-feeding".into()))?;
            if a.no_clock() != a2.no_clock() {
                return Err(ctx(format!("re-feeding the same frame changed the row: {:?}", a.no_clock().diff(&a2.no_clock()))));
            }
            // keep the models in step with the repeated frame (capability / CPR slot time are unchanged by it)
        }
        if started.elapsed().as_secs_f64() > 0.9 {
            st.excluded.push("history took more than 0.9 s of real time");
            return Ok(());
        }
    }
    Ok(())
}

/// the fixed alphabet for the bounded-exhaustive part (aircraft index 0)
pub fn fixed_alphabet() -> Vec<Frame> {
    let a = gen::POOL[0];
    let v = |sub, s_ew, v_ew, s_ns, v_ns, s_vr, vr| Vel { sub, hdr: 0, s_ew, v_ew, s_ns, v_ns, vr_src: 0, s_vr, vr, rsv: 0, s_dif: 0, dif: 0 };
    let r50 = |roll, rate| gen::mb50(&gen::R50 { roll, track: 300, gs: 210, rate, tas: 205 });
    let r60 = |hdg, baro| gen::mb60(&gen::R60 { hdg, ias: 250, mach: 200, baro, ivv: baro });
    let mut cleared50 = r50(40, 20);
    mb_set(&mut cleared50, 24, 24, 0);
    vec![
        bits::df0(a, bits::ac13_q1(1000), 0),
        bits::df4(a, bits::ac13_q1(1560), 0),
        bits::df4(a, bits::ac13_q1(440), 7),
        bits::df4(a, 0, 0),
        bits::df4(a, bits::ac13_q1(12), 0),
        bits::df5(a, bits::id13_from_squawk(7, 4, 2, 1, 0), 0),
        bits::df5(a, bits::id13_from_squawk(1, 2, 0, 0, 1), 3),
        bits::df11(a, 0, 0),
        bits::df11(a, 5, 0),
        bits::df16(a, bits::ac13_q1(900), 0),
        bits::es(17, 5, a, bits::me_ident(1, 0, [1, 2, 3, 49, 50, 51, 32, 32])),
        bits::es(17, 5, a, bits::me_ident(4, 3, [11, 12, 13, 48, 48, 55, 32, 32])),
        bits::es(17, 5, a, bits::me_ident(4, 5, [32, 32, 32, 32, 32, 32, 32, 32])),
        bits::es(17, 5, a, bits::me_surfpos(6, 30, 1, 64, 0, 0, 60000, 70000)),
        bits::es(17, 5, a, airpos_me(11, 0, bits::ac12_q1(1400), false, 52.25, 3.92)),
        bits::es(17, 5, a, airpos_me(11, 2, bits::ac12_q1(1404), true, 52.251, 3.921)),
        bits::es(17, 2, a, airpos_me(12, 1, 0, false, 52.252, 3.922)),
        bits::es(17, 5, a, bits::me_velocity(&v(1, 0, 301, 1, 201, 0, 11))),
        bits::es(17, 5, a, bits::me_velocity(&v(1, 1, 51, 0, 401, 1, 31))),
        bits::es(17, 5, a, bits::me_velocity(&v(1, 0, 0, 0, 100, 0, 5))),
        bits::es(17, 5, a, bits::me_velocity(&v(1, 0, 77, 0, 88, 0, 0))),
        bits::es(17, 5, a, bits::me_velocity(&v(2, 1, 200, 1, 200, 0, 1))),
        bits::es(17, 5, a, bits::me_velocity(&v(3, 1, 300, 0, 250, 1, 9))),
        bits::es(17, 5, a, airpos_me(21, 3, 0x123, false, 52.25, 3.92)),
        bits::es(17, 5, a, bits::me_raw(28, 0x1234_5678)),
        bits::es(17, 5, a, bits::me_raw(29, 0x0FFF_0000_1111)),
        bits::es(17, 5, a, bits::me_opstatus(0, 2, 0x5555)),
        bits::es(17, 3, a, bits::me_raw(0, 0)),
        bits::es(18, 2, a, bits::me_ident(2, 1, [24, 25, 26, 57, 32, 32, 32, 32])),
        bits::df20(a, bits::ac13_q1(1200), 0, 0),
        bits::df20(a, bits::ac13_q1(1200), gen::mb17(true, true, true, 0), 0),
        bits::df20(a, bits::ac13_q1(1204), gen::mb17(false, false, false, 0x800000), 0),
        bits::df20(a, bits::ac13_q1(1208), gen::mb20([8, 5, 12, 12, 15, 49, 32, 32]), 0),
        bits::df21(a, bits::id13_from_squawk(2, 0, 0, 0, 0), gen::mb20([23, 15, 18, 12, 4, 50, 51, 32]), 0),
        bits::df20(a, bits::ac13_q1(1212), (0x30u64 << 48) | (1u64 << 28), 0),
        bits::df20(a, bits::ac13_q1(1216), gen::mb40(&gen::R40 { mcp: 2000, fms: 2100, baro: 2132, mode_status: 1, modes: 2, src_status: 1, src: 2 }), 0),
        bits::df21(a, bits::id13_from_squawk(3, 3, 3, 3, 0), r50(40, 20), 0),
        bits::df21(a, bits::id13_from_squawk(3, 3, 3, 4, 0), r50(-100, -40), 0),
        bits::df20(a, bits::ac13_q1(1220), r60(400, 30), 0),
        bits::df20(a, bits::ac13_q1(1224), r60(-400, -30), 0),
        bits::df20(a, bits::ac13_q1(1228), cleared50, 0),
        bits::df21(a, bits::id13_from_squawk(0, 0, 0, 0, 0), 0x5A5A_5A5A_5A5A_5A, 0),
        bits::df21(a, bits::id13_from_squawk(7, 7, 7, 7, 0), 0, 0),
        bits::df4(a, 0x1FFF, 0),
        bits::es(17, 7, a, airpos_me(18, 0, bits::ac12_q1(39), true, 52.25, 3.92)),
        bits::df11(a, 7, 5),
    ]
}

fn classify(c: &mut Ctx, st: &Stats, key: &impl std::hash::Hash) {
    c.eval(st.steps);
    let multi = st.formats_on_row.values().any(|s| s.len() >= 2);
    if multi && (st.overwrites + st.kept) >= 1 {
        c.nontrivial(key);
        c.class("nontrivial_history");
    } else {
        c.class("trivial_history");
    }
    c.class_n("overwrites", st.overwrites);
    c.class_n("kept_or_blank", st.kept);
    for e in &st.excluded {
        c.excluded(e);
    }
}

/// batch relation: the whole history in ONE reader run gives the same table as one reader run per frame
/// (no state may survive from one line to the next except through the table)
pub fn check_batch_equals_stepwise(opts: &Opts, steps: &[Step]) -> Result<(), String> {
    let all: Vec<String> = steps.iter().map(|s| s.frame.hex()).collect();
    let tb = run::new_table();
    run::run_lines(opts, &tb, &all).map_err(|e| format!("reader failed on the whole history: {:?}", e))?;
    let ts = run::new_table();
    for l in &all {
        run::run_lines(opts, &ts, std::slice::from_ref(l)).map_err(|e| format!("reader failed: {:?}", e))?;
    }
    let a = run::no_clock(&run::snapshot(&tb));
    let b = run::no_clock(&run::snapshot(&ts));
    if a != b {
        return Err(format!("feeding the history in one run gives a different table than feeding it frame by frame ({}): {}", opts.label(), run::table_diff(&b, &a).iter().take(5).cloned().collect::<Vec<_>>().join("; ")));
    }
    // the same with every line doubled (a repeated line is a line like any other)
    let doubled: Vec<String> = all.iter().flat_map(|l| [l.clone(), l.clone()]).collect();
    let td = run::new_table();
    run::run_lines(opts, &td, &doubled).map_err(|e| format!("reader failed on the doubled history: {:?}", e))?;
    let tds = run::new_table();
    for l in &doubled {
        run::run_lines(opts, &tds, std::slice::from_ref(l)).map_err(|e| format!("reader failed: {:?}", e))?;
    }
    let a = run::no_clock(&run::snapshot(&td));
    let b = run::no_clock(&run::snapshot(&tds));
    if a != b {
        return Err(format!("feeding the history with every line doubled in one run differs from feeding the same lines one by one ({}): {}", opts.label(), run::table_diff(&b, &a).iter().take(5).cloned().collect::<Vec<_>>().join("; ")));
    }
    Ok(())
}

fn run(c: &mut Ctx) {
    let alpha = fixed_alphabet();
    let n = alpha.len();
    let bystander = Step { ac: 1, frame: bits::es(17, 5, gen::POOL[1], bits::me_ident(4, 2, [2, 25, 19, 20, 1, 14, 4, 32])), dt: 0 };
    let depth = c.tier.pick(2u32, 3u32);
    let total = (n as u64).pow(depth);
    let optsets = [Opts::quiet(), Opts::quiet().with_u(true), Opts::quiet().with_r(true), Opts::quiet().with_u(true).with_r(true)];
    let mut idx = 0u64;
    for (oi, opts) in optsets.iter().enumerate() {
        for code in 0..total {
            let mine = c.mine(idx);
            idx += 1;
            if !mine {
                continue;
            }
            let mut steps = vec![bystander.clone()];
            let mut x = code;
            for _ in 0..depth {
                steps.push(Step { ac: 0, frame: alpha[(x % n as u64) as usize], dt: 0 });
                x /= n as u64;
            }
            let mut st = Stats::default();
            let r = check_history(opts, &steps, &mut st).and_then(|_| check_batch_equals_stepwise(opts, &steps));
            classify(c, &st, &("fixed", oi, code));
            c.class("bounded_exhaustive_sequence");
            if let Err(m) = r {
                if !c.failed() {
                    c.fail(m, "c11:transition", json!({"kind":"history","opts":opts,"steps":steps}));
                }
            }
        }
    }
    c.exhaustive(if c.tier == Tier::Thorough { "all sequences of length 3 over the 46-symbol alphabet x 4 option sets" } else { "all sequences of length 2 over the 46-symbol alphabet x 4 option sets" });
    // length-1 and length-2 with a time step in between (cheap, adds the timing dimension)
    if c.failed() {
        return;
    }
    let cases = c.tier.pick(24_000, 400_000);
    let strat = (gen::opts_ur(), (1usize..=4).prop_flat_map(|k| alphabet::history(k, 3..50, 15)));
    let r = c.proptest(cases, strat, |c, (opts, steps), counting| {
        let mut st = Stats::default();
        let r = check_history(opts, steps, &mut st).and_then(|_| check_batch_equals_stepwise(opts, steps));
        if counting {
            classify(c, &st, &format!("{:?}{:?}", opts, steps));
            c.class("generated_sequence");
            if r.is_ok() && c.want_sample() && steps.len() < 14 {
                c.sample(json!({"opts": opts.label(), "steps": steps.iter().map(|s| format!("+{}s {:06X} {}", s.dt, gen::POOL[s.ac], s.frame.hex())).collect::<Vec<_>>()}));
            }
        }
        r
    });
    if let Some(((opts, steps), m)) = r {
        c.fail(m, "c11:transition", json!({"kind":"history","opts":opts,"steps":steps}));
    }
}

fn replay(c: &mut Ctx, case: &Value) {
    c.eval(1);
    let opts: Opts = serde_json::from_value(case["opts"].clone()).unwrap_or_default();
    let Ok(steps) = serde_json::from_value::<Vec<Step>>(case["steps"].clone()) else { return c.inconclusive("bad replay") };
    let mut st = Stats::default();
    if let Err(m) = check_history(&opts, &steps, &mut st).and_then(|_| check_batch_equals_stepwise(&opts, &steps)) {
        c.fail(m, "c11:transition", case.clone());
    }
}
