//! C08 — airborne position is the correct global CPR decode or is left unchanged.

use super::PropSpec;
use crate::alphabet::airpos_me;
use crate::bits::{self, Frame};
use crate::ctx::Ctx;
use crate::gen;
use crate::refdec::{cpr_encode, gc_km_vec, haversine_km, nl, nl_boundary};
use crate::run::{self, Opts, Snap};
use proptest::prelude::*;
use serde::{Deserialize, Serialize};
use serde_json::{json, Value};
use std::time::Instant;

pub fn spec() -> PropSpec {
    PropSpec {
        id: "C08",
        level: "exploration",
        rule: "generated true positions stratified over every NL zone (uniform inside), 1e-4..1e-2 deg around each of the 58 zone boundaries, the equator, |lat| up to 86.9, longitudes uniform plus the +-180 / 0 neighbourhoods, both hemispheres; encoded by an independent CPR encoder (DO-260B A.1.7) into an even and an odd airborne-position squitter (TC 9..18), second frame displaced 0..3 km, either order, delays 0..8, 9, 10, 11, 30 s, around one and two days, and at the wrap points of 8/16/31/32-bit second and millisecond counters (65 s, 256 s, 65536 s, 24.8 d, 49.7 d, 2^31 s, 2^32 s) (simulated by shifting the stored time stamps), 0..3 unrelated frames of the same aircraft in between, with/without an earlier valid position, optional zero CPR field, -U on/off, observer given as 'lat,lon' with optional blanks. Oracle: valid pair (both fields non-zero, gap < 10 whole seconds by the interval rule, same NL zone, > 1e-6 deg from a boundary) => shown point within 20 m of the newer frame's position, lat/lon in range, distance = independent great-circle distance +- 1 m; otherwise lat, lon, distance and position stamp are unchanged by the frame. A share of the valid pairs is also run through the built CLI with -O \"lat, lon\": LATITUDE / LONGITUDE / DIST cells of the printed row must agree. Non-trivial = valid pairs; distinct by hash of the case",
        assumptions: &["reference CPR encoder and closed-form NL(lat)", "elapsed time simulated by shifting the public time-stamp fields; a case whose measured wall time makes the whole-second gap ambiguous is discarded and counted", "R = 6371 km"],
        workers: 16,
        also_nochk: false,
        fuzz_target: None,
        quick_budget_s: 900,
        thorough_budget_s: 3600,
        min_nontrivial_quick: 10_000,
        min_nontrivial_thorough: 300_000,
        run,
        replay,
    }
}

#[derive(Clone, Debug, Serialize, Deserialize, PartialEq)]
pub struct PosCase {
    pub opts: Opts,
    pub observer: Option<(f64, f64, u8)>,
    pub prior: Option<(f64, f64)>,
    pub lat: f64,
    pub lon: f64,
    pub d_north_m: f64,
    pub d_east_m: f64,
    pub first_odd: bool,
    pub delay: i64,
    pub between: Vec<Frame>,
    pub tc: u32,
    pub ac12: u32,
    pub zero_field: u8, // 0 none, 1 lat of first, 2 lon of first, 3 lat of second, 4 lon of second
    pub addr: u32,
    /// 0 plain; 1: after the first frame a second frame of the SAME parity with a zero CPR field arrives (the slot then
    /// holds 'not received'); 2: the first frame is repeated `repeat_after` s later and the delay counts from the repeat
    #[serde(default)]
    pub variant: u8,
    #[serde(default)]
    pub repeat_after: i64,
}

fn observer_string(o: &(f64, f64, u8)) -> String {
    match o.2 % 4 {
        0 => format!("{},{}", o.0, o.1),
        1 => format!(" {} , {} ", o.0, o.1),
        2 => format!("{}, {}", o.0, o.1),
        _ => format!("  {}  ,\t{}", o.0, o.1),
    }
}

fn displaced(lat: f64, lon: f64, north_m: f64, east_m: f64) -> (f64, f64) {
    let dlat = north_m / 111_194.9;
    let la = (lat + dlat).clamp(-89.9, 89.9);
    let dlon = east_m / (111_194.9 * la.to_radians().cos().max(0.01));
    let mut lo = lon + dlon;
    if lo >= 180.0 { lo -= 360.0; }
    if lo < -180.0 { lo += 360.0; }
    (la, lo)
}

fn near_boundary(rlat: f64) -> bool {
    let a = rlat.abs();
    (2..=59).any(|n| (nl_boundary(n) - a).abs() < 1e-6) || (a - 87.0).abs() < 1e-6
}

fn pos_frame(c: &PosCase, lat: f64, lon: f64, odd: bool, zero_lat: bool, zero_lon: bool) -> (Frame, u32, u32, f64) {
    let (mut yz, mut xz, rlat, _) = cpr_encode(lat, lon, odd);
    if zero_lat { yz = 0; }
    if zero_lon { xz = 0; }
    let me = bits::me_airpos(c.tc, 0, 0, c.ac12, 0, odd as u32, yz, xz);
    (bits::es(17, 5, c.addr, me), yz, xz, rlat)
}

fn pos_state(s: Option<&Snap>) -> (u64, u64, Option<u64>, Option<i64>) {
    match s {
        None => (0f64.to_bits(), 0f64.to_bits(), None, None),
        Some(r) => (r.lat, r.lon, r.dist, r.position_ts),
    }
}

pub enum Verdict {
    Valid,
    Invalid(&'static str),
    Discard(&'static str),
}

pub fn check(c: &PosCase) -> Result<Verdict, String> {
    if let Some(o) = &c.observer {
        squitterator::set_observer_coords_from_str(&observer_string(o));
    }
    let t = run::new_table();
    let started = Instant::now();
    // prior valid position, then 30 s pass
    if let Some((pla, plo)) = c.prior {
        let a = bits::es(17, 5, c.addr, airpos_me(11, 0, c.ac12, false, pla, plo));
        let b = bits::es(17, 5, c.addr, airpos_me(11, 0, c.ac12, true, pla, plo));
        run::run_lines(&c.opts, &t, &[a.hex(), b.hex()]).map_err(|e| format!("reader failed: {:?}", e))?;
        run::shift_time(&t, 30);
    }
    let (la2, lo2) = displaced(c.lat, c.lon, c.d_north_m, c.d_east_m);
    let (f1, yz1, xz1, rlat1) = pos_frame(c, c.lat, c.lon, c.first_odd, c.zero_field == 1, c.zero_field == 2);
    let (f2, yz2, xz2, rlat2) = pos_frame(c, la2, lo2, !c.first_odd, c.zero_field == 3, c.zero_field == 4);
    // first frame: a single frame never changes the position
    let before1 = run::snapshot(&t);
    let t_first = Instant::now();
    run::run_lines(&c.opts, &t, &[f1.hex()]).map_err(|e| format!("reader failed on {}: {:?}", f1.hex(), e))?;
    let after1 = run::snapshot(&t);
    if pos_state(before1.get(&c.addr)) != pos_state(after1.get(&c.addr)) {
        let r = after1.get(&c.addr).unwrap();
        return Err(format!("a single position frame {} (no valid partner: {}) changed the shown position to {:.5},{:.5}", f1.hex(), if c.prior.is_some() { "other slot is 30 s old" } else { "other slot never received" }, r.lat_f(), r.lon_f()));
    }
    if c.variant == 3 {
        // an earlier surface position squitter of the same aircraft (it took off since): both slots are refreshed by the
        // airborne pair that follows, so the pair must decode as usual
        let s = bits::es(17, 5, c.addr, bits::me_surfpos(6, 30, 1, 64, 0, (!c.first_odd) as u32, 60_000, 70_000));
        run::run_lines(&c.opts, &t, &[s.hex()]).map_err(|e| format!("reader failed on {}: {:?}", s.hex(), e))?;
    }
    let mut zeroed_slot = false;
    if c.variant == 1 && c.zero_field == 0 {
        // same parity as the first frame, longitude field exactly 0: the slot of that parity now says 'not received'
        let (fz, _, _, _) = pos_frame(c, c.lat, c.lon, c.first_odd, false, true);
        let b = run::snapshot(&t);
        run::run_lines(&c.opts, &t, &[fz.hex()]).map_err(|e| format!("reader failed on {}: {:?}", fz.hex(), e))?;
        let a = run::snapshot(&t);
        if pos_state(b.get(&c.addr)) != pos_state(a.get(&c.addr)) {
            return Err(format!("a position frame with a zero CPR field {} changed the shown position", fz.hex()));
        }
        zeroed_slot = true;
    }
    if c.variant == 2 && c.zero_field == 0 {
        // the very same first frame again, later: it is the latest frame of its parity and restarts the pair clock
        run::shift_time(&t, c.repeat_after);
        let b = run::snapshot(&t);
        run::run_lines(&c.opts, &t, &[f1.hex()]).map_err(|e| format!("reader failed on {}: {:?}", f1.hex(), e))?;
        let a = run::snapshot(&t);
        if c.prior.is_none() && pos_state(b.get(&c.addr)) != pos_state(a.get(&c.addr)) {
            return Err(format!("repeating the single position frame {} changed the shown position", f1.hex()));
        }
    }
    let mut lines: Vec<String> = c.between.iter().map(|f| f.hex()).collect();
    if !lines.is_empty() {
        run::run_lines(&c.opts, &t, &lines).map_err(|e| format!("reader failed: {:?}", e))?;
        lines.clear();
    }
    run::shift_time(&t, c.delay);
    let before2 = run::snapshot(&t);
    run::run_lines(&c.opts, &t, &[f2.hex()]).map_err(|e| format!("reader failed on {}: {:?}", f2.hex(), e))?;
    let elapsed = t_first.elapsed().as_secs_f64();
    let after2 = run::snapshot(&t);
    let row = after2.get(&c.addr).ok_or_else(|| "row missing".to_string())?;
    let _ = started;

    // expectation
    let nonzero = yz1 != 0 && xz1 != 0 && yz2 != 0 && xz2 != 0;
    let gap_lo = c.delay;
    let gap_hi = (c.delay as f64 + elapsed).floor() as i64;
    let zones_equal = nl(rlat1) == nl(rlat2);
    let verdict = if zeroed_slot {
        Verdict::Invalid("slot_overwritten_by_zero_field_frame")
    } else if !nonzero {
        Verdict::Invalid("zero_cpr_field")
    } else if gap_lo >= 10 {
        Verdict::Invalid("gap_ge_10s")
    } else if gap_hi >= 10 {
        Verdict::Discard("ambiguous_wallclock")
    } else if near_boundary(rlat1) || near_boundary(rlat2) {
        Verdict::Discard("near_zone_boundary")
    } else if !zones_equal {
        Verdict::Invalid("zone_straddle")
    } else if la2.abs() > 87.0 || c.lat.abs() > 87.0 {
        Verdict::Discard("beyond_87_deg")
    } else {
        Verdict::Valid
    };
    let ctx = || format!("[frames {} then {} ({} first), delay {} s, true position {:.6},{:.6} -> {:.6},{:.6}, {}]", f1.hex(), f2.hex(), if c.first_odd { "odd" } else { "even" }, c.delay, c.lat, c.lon, la2, lo2, c.opts.label());
    match verdict {
        Verdict::Discard(_) => {}
        Verdict::Invalid(why) => {
            if pos_state(before2.get(&c.addr)) != pos_state(Some(row)) {
                return Err(format!("pair is not valid ({}) but the shown position changed to {:.5},{:.5} {}", why, row.lat_f(), row.lon_f(), ctx()));
            }
        }
        Verdict::Valid => {
            let (la, lo) = (row.lat_f(), row.lon_f());
            if !(-90.0..=90.0).contains(&la) || !(-180.0..=180.0).contains(&lo) {
                return Err(format!("shown position {:.5},{:.5} out of range {}", la, lo, ctx()));
            }
            let err_m = haversine_km(la, lo, la2, lo2) * 1000.0;
            if !(err_m <= 20.0) {
                return Err(format!("valid pair decoded to {:.6},{:.6}, {:.1} m from the newer frame's position {}", la, lo, err_m, ctx()));
            }
            if row.position_ts.is_none() {
                return Err(format!("valid pair decoded but no position time stamp {}", ctx()));
            }
            if let Some(o) = &c.observer {
                let want = gc_km_vec(la, lo, o.0, o.1);
                match row.dist_f() {
                    Some(d) if (d - want).abs() <= 0.001 => {}
                    other => return Err(format!("distance column {:?} km, great-circle distance from observer {:?} to the shown point is {:.4} km {}", other, observer_string(o), want, ctx())),
                }
            }
        }
    }
    Ok(verdict)
}

fn lat_strategy() -> BoxedStrategy<f64> {
    let zone = (2i32..=59, 0.0f64..1.0).prop_map(|(n, u)| {
        let lo = if n == 59 { 0.0 } else { nl_boundary(n + 1) };
        let hi = nl_boundary(n);
        lo + (hi - lo) * (0.001 + 0.998 * u)
    });
    let edge = (2i32..=59, prop_oneof![2 => 1e-4f64..1e-2, 1 => 2e-6f64..1e-4], any::<bool>()).prop_map(|(n, d, above)| nl_boundary(n) + if above { d } else { -d });
    prop_oneof![
        6 => zone,
        3 => edge,
        1 => -0.01f64..0.01,
        1 => 86.0f64..86.9,
        1 => 0.0f64..86.9,
    ]
    .prop_flat_map(|a| (Just(a), any::<bool>()))
    .prop_map(|(a, south)| if south { -a } else { a })
    .boxed()
}
fn lon_strategy() -> BoxedStrategy<f64> {
    prop_oneof![6 => -180.0f64..180.0, 1 => 179.95f64..180.0, 1 => -180.0f64..-179.95, 1 => -0.05f64..0.05].boxed()
}

fn between_strategy(addr: u32) -> BoxedStrategy<Vec<Frame>> {
    let f = prop_oneof![
        (gen::ac13_valid(), gen::fill128()).prop_map(move |(ac, fill)| bits::df4(addr, ac, fill)),
        (0u32..8).prop_map(move |ca| bits::df11(addr, ca, 0)),
        (1u32..=4, 0u32..8, gen::chars8()).prop_map(move |(tc, ca, ch)| bits::es(17, 5, addr, bits::me_ident(tc, ca, ch))),
        gen::vel_any().prop_map(move |v| bits::es(17, 5, addr, bits::me_velocity(&v))),
        (gen::ac13_valid(), any::<u64>()).prop_map(move |(ac, mb)| bits::df20(addr, ac, mb & ((1u64 << 56) - 1), 0)),
        (gen::id13(), gen::fill128()).prop_map(move |(id, fill)| bits::df5(addr, id, fill)),
    ];
    prop_oneof![2 => Just(Vec::new()), 1 => proptest::collection::vec(f, 1..=3)].boxed()
}

pub fn case_strategy() -> BoxedStrategy<PosCase> {
    let delay = prop_oneof![8 => 0i64..=8, 4 => Just(9i64), 4 => Just(10i64), 2 => Just(11i64), 2 => Just(30i64), 1 => Just(86_400i64 - 4), 1 => Just(86_400i64 + 3), 1 => Just(2 * 86_400i64 - 2), 1 => Just(3600i64), 2 => proptest::sample::select(vec![65i64, 66, 131, 256, 257, 65_536, 65_538, 2_147_483, 2_147_484, 4_294_967, 4_294_970, 8_589_934, 1i64 << 31, (1i64 << 31) + 2, 1i64 << 32, (1i64 << 32) + 3])];
    let obs = prop_oneof![1 => Just(None), 4 => (-89.0f64..89.0, -179.0f64..179.0, any::<u8>()).prop_map(|(a, b, s)| Some(((a * 1e4).round() / 1e4, (b * 1e4).round() / 1e4, s))), 1 => Just(Some((52.66411442720024, -8.622299905360963, 2u8)))];
    let prior = prop_oneof![2 => Just(None), 1 => (-80.0f64..80.0, -170.0f64..170.0).prop_map(Some)];
    (
        (any::<bool>(), obs, prior, lat_strategy(), lon_strategy(), -3000.0f64..3000.0, -3000.0f64..3000.0),
        (any::<bool>(), delay, gen::addr().prop_flat_map(|a| (Just(a), between_strategy(a))), 9u32..=18, gen::ac12_any(), prop_oneof![12 => Just(0u8), 1 => 1u8..=4], prop_oneof![8 => Just(0u8), 1 => Just(1u8), 1 => Just(2u8), 1 => Just(3u8)], 1i64..=12),
    )
        .prop_map(|((u, observer, prior, lat, lon, dn, de), (first_odd, delay, (addr, between), tc, ac12, zero_field, variant, repeat_after))| PosCase {
            opts: Opts::quiet().with_u(u),
            observer,
            prior,
            lat,
            lon,
            d_north_m: dn,
            d_east_m: de,
            first_odd,
            delay,
            between,
            tc,
            ac12,
            zero_field,
            addr,
            variant,
            repeat_after,
        })
        .boxed()
}

fn run(c: &mut Ctx) {
    let cases = c.tier.pick(240_000, 3_000_000);
    let mut worst = 0.0f64;
    let r = c.proptest(cases, case_strategy(), |c, pc, counting| {
        let v = check(pc)?;
        if counting {
            c.eval(1);
            match v {
                Verdict::Valid => {
                    c.nontrivial(&format!("{:?}", pc));
                    c.class("valid_pair");
                    c.class(&format!("nl_zone_{:02}", nl(pc.lat)));
                    if pc.first_odd { c.class("order_odd_first"); } else { c.class("order_even_first"); }
                    c.class(&format!("delay_{}", if pc.delay <= 8 { "0_8".to_string() } else { pc.delay.to_string() }));
                    if pc.prior.is_some() { c.class("with_prior_position"); }
                    if !pc.between.is_empty() { c.class("with_interleaved_frames"); }
                    if c.want_sample() {
                        c.sample(json!({"lat": pc.lat, "lon": pc.lon, "order": if pc.first_odd {"odd,even"} else {"even,odd"}, "delay_s": pc.delay, "opts": pc.opts.label(), "observer": pc.observer.as_ref().map(observer_string), "expect": "decode within 20 m"}));
                    }
                }
                Verdict::Invalid(w) => c.class(&format!("invalid_{}", w)),
                Verdict::Discard(w) => c.excluded(w),
            }
        }
        let _ = &mut worst;
        Ok(())
    });
    if let Some((pc, m)) = r {
        c.fail(m, "c08:position", json!({"kind":"pos","c":pc}));
        return;
    }
    // the same through the command line with -O
    let cases = c.tier.pick(160, 3_000);
    let r = c.proptest(cases, case_strategy(), |c, pc, counting| {
        let used = check_cli_observer(pc)?;
        if counting && used {
            c.eval(1);
            c.class("cli_observer_option");
            c.nontrivial(&format!("cli{:?}", pc));
        }
        Ok(())
    });
    if let Some((pc, m)) = r {
        c.fail(m, "c08:cli_observer", json!({"kind":"cli","c":pc}));
    }
}

/// the observer given on the command line (-O "lat, lon") must be the one the distance column refers to
fn check_cli_observer(pc: &PosCase) -> Result<bool, String> {
    let Some(o) = &pc.observer else { return Ok(false) };
    let (la2, lo2) = displaced(pc.lat, pc.lon, pc.d_north_m, pc.d_east_m);
    // an observer within a few hundred km, so that the distance fits the 5-character DIST column
    let r4 = |x: f64| (x * 1e4).round() / 1e4;
    let o = &(r4((la2 + o.0 % 3.0).clamp(-89.0, 89.0)), r4(((lo2 + o.1 % 3.0 + 540.0) % 360.0) - 180.0), o.2);
    if pc.lat.abs() > 86.5 || la2.abs() > 86.5 {
        return Ok(false);
    }
    let (f1, yz1, xz1, r1) = pos_frame(pc, pc.lat, pc.lon, pc.first_odd, false, false);
    let (f2, yz2, xz2, r2) = pos_frame(pc, la2, lo2, !pc.first_odd, false, false);
    if nl(r1) != nl(r2) || near_boundary(r1) || near_boundary(r2) || yz1 == 0 || xz1 == 0 || yz2 == 0 || xz2 == 0 {
        return Ok(false); // not a valid pair (a CPR field of exactly 0 counts as not received)
    }
    let path = run::tmp_dir().join(format!("c08-{}.txt", std::process::id()));
    std::fs::write(&path, format!("{}\n{}\n", f1.hex(), f2.hex())).map_err(|e| e.to_string())?;
    let o2 = Opts { i: vec!["x".into()], upd: -1, u: pc.opts.u, ..Opts::default() };
    let extra = vec![format!("--observer-coord={}", observer_string(o))]; // "=" form: the value may start with a minus sign
    let out = crate::cli::run_file(true, &o2, &path.to_string_lossy(), &extra, true, std::time::Duration::from_secs(60)).map_err(|e| e.to_string())?;
    if out.timed_out {
        return Ok(false);
    }
    if out.status != Some(0) {
        return Err(format!("CLI with -O {:?} ended with {:?}/{:?}: {}", observer_string(o), out.status, out.signal, out.stderr));
    }
    let (_, rs) = crate::cli::parse_refreshes(&String::from_utf8_lossy(&out.stdout));
    let Some(last) = rs.last() else { return Err("CLI printed no refresh".into()) };
    let Some(row) = last.rows.first() else { return Err("CLI printed no row".into()) };
    let want = gc_km_vec(la2, lo2, o.0, o.1);
    if want >= 9999.0 || row.chars().count() != last.header.chars().count() {
        return Ok(false); // distance does not fit its column: the row is shifted
    }
    let cells = crate::render::cells("", row).ok_or("row too short")?;
    let lat: f64 = cells["LATITUDE"].trim().parse().map_err(|_| format!("CLI row {:?}: no latitude although a valid pair was fed", row))?;
    let lon: f64 = cells["LONGITUDE"].trim().parse().map_err(|_| format!("CLI row {:?}: no longitude", row))?;
    if haversine_km(lat, lon, la2, lo2) * 1000.0 > 25.0 {
        return Err(format!("CLI shows {:.5},{:.5} for a pair at {:.5},{:.5}", lat, lon, la2, lo2));
    }
    let dist: f64 = cells["DIST"].trim().parse().map_err(|_| format!("CLI row {:?}: DIST column blank although -O {:?} was given", row, observer_string(o)))?;
    if (dist - want).abs() > 0.06 + 0.03 {
        return Err(format!("CLI with -O {:?}: DIST column shows {:.1} km, the great-circle distance to the shown point is {:.3} km", observer_string(o), dist, want));
    }
    Ok(true)
}

fn replay(c: &mut Ctx, case: &Value) {
    c.eval(1);
    let Ok(pc) = serde_json::from_value::<PosCase>(case["c"].clone()) else { return c.inconclusive("bad replay") };
    if case["kind"].as_str() == Some("cli") {
        if let Err(m) = check_cli_observer(&pc) {
            c.fail(m, "c08:cli_observer", case.clone());
        }
        return;
    }
    if let Err(m) = check(&pc) {
        c.fail(m, "c08:position", case.clone());
    }
}
