//! C04 — squitters with failing parity never change the table.

use super::PropSpec;
use crate::alphabet::{self, Step};
use crate::bits::{self, parity_ok, Frame};
use crate::ctx::Ctx;
use crate::gen;
use crate::run::{self, Opts, Table};
use proptest::prelude::*;
use serde_json::{json, Value};

pub fn spec() -> PropSpec {
    PropSpec {
        id: "C04",
        level: "exploration",
        rule: "generated intact DF11 (IC 0..127) / DF17 / DF18 frames x error patterns confined to bits 6..len: every 1-bit and 2-bit error, every burst of length <= 24 (all inner patterns up to length 10, generated above), generated patterns of weight 3..20; each corrupted frame arrives after a generated prefix history that already contains the aircraft. An independent CRC-24 decides whether the corrupted frame is still parity-valid (then it is excluded and counted); otherwise the table (all fields, time stamps included) must be identical before and after. Corrupted frames are fed in batches and a changed table is bisected to one frame. A wide layer adds thousands of further base frames (dense and sparse payloads) with every 1-bit error each, 64 bases per reader run on a table holding their rows. Positive control per base frame: the intact frame and a DF11 with IC != 0 must be applied. Non-trivial = corrupted frame the reference rejects, distinct by (base frame, pattern)",
        assumptions: &["reference CRC-24 (generator 0x1FFF409); DF11 accepted iff upper 17 remainder bits are 0"],
        workers: 16,
        also_nochk: false,
        fuzz_target: None,
        quick_budget_s: 900,
        thorough_budget_s: 3600,
        min_nontrivial_quick: 100_000,
        min_nontrivial_thorough: 1_000_000,
        run,
        replay,
    }
}

fn base_frame() -> BoxedStrategy<Frame> {
    prop_oneof![
        2 => (gen::addr(), 0u32..8, 0u32..128).prop_map(|(a, ca, ic)| bits::df11(a, ca, ic)),
        4 => (gen::addr(), 0u32..8, alphabet::me_any()).prop_map(|(a, ca, me)| bits::es(17, ca, a, me)),
        2 => (gen::addr(), 0u32..8, alphabet::me_any()).prop_map(|(a, ca, me)| bits::es(18, ca, a, me)),
    ]
    .boxed()
}

fn apply_mask(f: &Frame, mask: u128) -> Frame {
    Frame { bits: f.bits ^ mask, len: f.len }
}

/// enumerated patterns for a frame of `len` bits; bit b (1-based) <-> 1 << (len - b)
fn enumerated_masks(len: u32, extra_inner: &[u32]) -> Vec<(u128, &'static str)> {
    let bit = |b: u32| 1u128 << (len - b);
    let mut v = Vec::new();
    for b in 6..=len {
        v.push((bit(b), "single"));
    }
    for a in 6..=len {
        for b in (a + 1)..=len {
            v.push((bit(a) | bit(b), "double"));
        }
    }
    let mut k = 0usize;
    for l in 3..=24u32 {
        for s in 6..=(len + 1 - l) {
            let ends = bit(s) | bit(s + l - 1);
            let inner_bits = l - 2;
            if inner_bits <= 8 {
                for inner in 0..(1u32 << inner_bits) {
                    if inner == 0 {
                        continue; // that is a double error, already listed
                    }
                    v.push((ends | ((inner as u128) << (len - (s + l - 2))), "burst"));
                }
            } else {
                for _ in 0..4 {
                    let inner = extra_inner[k % extra_inner.len()] & ((1u32 << inner_bits) - 1);
                    k += 1;
                    v.push((ends | ((inner as u128) << (len - (s + l - 2))), "burst"));
                }
            }
        }
    }
    v
}

fn prepare(opts: &Opts, prefix: &[Step]) -> Result<Table, String> {
    let t = run::new_table();
    let lines: Vec<String> = prefix.iter().map(|s| s.frame.hex()).collect();
    if !lines.is_empty() {
        run::run_lines(opts, &t, &lines).map_err(|e| format!("reader failed on the prefix: {:?}", e))?;
    }
    Ok(t)
}

/// feeds the frames; Ok(()) when the table is unchanged
fn unchanged_after(opts: &Opts, prefix: &[Step], frames: &[Frame]) -> Result<(), String> {
    let t = prepare(opts, prefix)?;
    let before = run::snapshot(&t);
    // the corrupted frames arrive bare, as '*...;', with a receiver time stamp, with a leading blank (decoration must
    // not let a frame slip past the parity check)
    let lines: Vec<String> = frames
        .iter()
        .enumerate()
        .map(|(i, f)| match i.wrapping_add(f.bits as usize) % 5 {
            0 => format!("*{};", f.hex()),
            1 => format!("@{:012X}{};", (f.bits >> 7) as u64 & 0xFFFF_FFFF_FFFF, f.hex()),
            2 => format!(" {}", f.hex().to_lowercase()),
            _ => f.hex(),
        })
        .collect();
    run::run_lines(opts, &t, &lines).map_err(|e| format!("reader failed: {:?}", e))?;
    let after = run::snapshot(&t);
    if before == after {
        Ok(())
    } else {
        Err(run::table_diff(&before, &after).join("; "))
    }
}

fn bisect(opts: &Opts, prefix: &[Step], frames: &[Frame]) -> (Frame, String) {
    let mut lo = 0usize;
    let mut hi = frames.len();
    let mut msg = String::new();
    // invariant: frames[lo..hi] changes the table
    while hi - lo > 1 {
        let mid = (lo + hi) / 2;
        match unchanged_after(opts, prefix, &frames[lo..mid]) {
            Err(m) => {
                hi = mid;
                msg = m;
            }
            Ok(()) => lo = mid,
        }
    }
    if let Err(m) = unchanged_after(opts, prefix, &frames[lo..hi]) {
        msg = m;
    }
    (frames[lo], msg)
}

fn check_one(opts: &Opts, prefix: &[Step], base: &Frame, mask: u128) -> Result<bool, String> {
    let f = apply_mask(base, mask);
    if parity_ok(&f) {
        return Ok(false);
    }
    unchanged_after(opts, prefix, &[f]).map_err(|d| format!("DF{} frame {} (intact {} with error pattern {:X}) fails the parity check (remainder {:06X}) but changed the table: {}", f.df(), f.hex(), base.hex(), mask, f.syndrome(), d))?;
    Ok(true)
}

fn positive_control(opts: &Opts, base: &Frame) -> Result<(), String> {
    let t = run::new_table();
    run::run_lines(opts, &t, &[base.hex()]).map_err(|e| format!("reader failed: {:?}", e))?;
    let s = run::snapshot(&t);
    let a = base.address();
    if a != 0 && !s.contains_key(&a) {
        return Err(format!("intact DF{} frame {} (remainder {:06X}) was not applied", base.df(), base.hex(), base.syndrome()));
    }
    Ok(())
}

fn run(c: &mut Ctx) {
    let n_bases = c.tier.pick(6usize, 40usize); // per worker
    let ctx_strat = (base_frame(), gen::opts_ur(), proptest::collection::vec(any::<u32>(), 64), proptest::collection::vec((6u32..112, any::<u128>(), 3u32..=20), 400));
    let draws = c.draw(n_bases, ctx_strat);
    for (di, (base, mut opts, inner, randoms)) in draws.into_iter().enumerate() {
        if di % 3 == 2 {
            opts.d = 0; // every sweep empties the table: a rejected frame that advanced the sweep counter would show
        }
        if di % 5 == 3 {
            opts.m = Some(vec![11, 17, 18]); // -M (log these formats): logging a damaged squitter must not apply it
        }
        if di % 5 == 4 {
            opts.c = true;
        }
        if di % 4 == 1 {
            opts.fmt = Some(["sbs", "beast", "avr"][di % 3].to_string()); // -F is declared by the program; parity applies regardless
        }
        // prefix history containing the aircraft itself and one other
        let addr = base.address();
        let pre = c.draw(1, proptest::collection::vec((prop_oneof![Just(addr), Just(0x4840D6u32)]).prop_flat_map(|a| alphabet::frame_any(a)), 0..12));
        let prefix: Vec<Step> = pre.into_iter().next().unwrap_or_default().into_iter().map(|f| Step { ac: 0, frame: f, dt: 0 }).collect();
        if let Err(m) = positive_control(&opts, &base) {
            c.fail(m, "c04:control", json!({"kind":"control","opts":opts,"base":base}));
            return;
        }
        let mut masks = enumerated_masks(base.len, &inner);
        // the parity field wiped to all zeros / all ones / replaced by the data CRC of another frame
        let pi = base.bits & 0xFF_FFFF;
        masks.push((pi, "parity_field_zeroed"));
        masks.push((pi ^ 0xFF_FFFF, "parity_field_ones"));
        // generated heavier patterns
        for (start, bitsv, w) in randoms {
            let len = base.len;
            let mut m = 0u128;
            let mut x = bitsv;
            let mut n = 0;
            while n < w {
                let b = 6 + ((x as u32).wrapping_add(start) % (len - 5));
                x = x.rotate_right(7) ^ 0x9E37_79B9;
                if m & (1u128 << (len - b)) == 0 {
                    m |= 1u128 << (len - b);
                    n += 1;
                }
            }
            masks.push((m, "random_heavy"));
        }
        let mut reject: Vec<Frame> = Vec::with_capacity(masks.len());
        let mut reject_masks = Vec::with_capacity(masks.len());
        for (m, class) in &masks {
            let f = apply_mask(&base, *m);
            c.eval(1);
            if parity_ok(&f) {
                c.excluded("corrupted frame is still parity-valid by the reference (error inside the IC bits / undetectable pattern)");
                continue;
            }
            c.class(class);
            c.nontrivial(&(base, *m));
            reject.push(f);
            reject_masks.push(*m);
        }
        c.class(&format!("base_df{}", base.df()));
        if c.want_sample() {
            c.sample(json!({"intact": base.hex(), "opts": opts.label(), "prefix_len": prefix.len(), "corrupted_examples": reject.iter().step_by(reject.len() / 3 + 1).map(|f| f.hex()).collect::<Vec<_>>(), "rejected_by_reference": reject.len()}));
        }
        // adjacency: the intact frame immediately before each corrupted one (a shortcut that recognises 'the frame just
        // accepted' must still look at every bit); compared with feeding the intact frame alone, wall-clock excluded
        if opts.d > 0 {
            let sample: Vec<Frame> = reject.iter().step_by((reject.len() / 400).max(1)).cloned().collect();
            let mut lines = vec![base.hex()];
            for f in &sample {
                lines.push(base.hex());
                lines.push(f.hex());
            }
            let t1 = run::new_table();
            let t2 = run::new_table();
            let r1 = run::run_lines(&opts, &t1, &[base.hex(), base.hex()]);
            let r2 = run::run_lines(&opts, &t2, &lines);
            c.eval(sample.len() as u64);
            c.class_n("intact_then_corrupted_pairs", sample.len() as u64);
            if r1.is_err() || r2.is_err() || run::no_clock(&run::snapshot(&t1)) != run::no_clock(&run::snapshot(&t2)) {
                // find the culprit
                let mut culprit = None;
                for f in &sample {
                    let ta = run::new_table();
                    let _ = run::run_lines(&opts, &ta, &[base.hex(), base.hex(), f.hex()]);
                    if run::no_clock(&run::snapshot(&ta)) != run::no_clock(&run::snapshot(&t1)) {
                        culprit = Some(*f);
                        break;
                    }
                }
                if let Some(f) = culprit {
                    let mask = f.bits ^ base.bits;
                    c.fail(
                        format!("DF{} frame {} fails the parity check (remainder {:06X}) but changed the table when it arrived directly after its intact original {}", f.df(), f.hex(), f.syndrome(), base.hex()),
                        "c04:applied",
                        json!({"kind":"adjacent","opts":opts,"base":base,"mask":format!("{:X}", mask)}),
                    );
                    return;
                }
            }
        }
        for chunk in reject.chunks(2048) {
            if let Err(_d) = unchanged_after(&opts, &prefix, chunk) {
                let (culprit, msg) = bisect(&opts, &prefix, chunk);
                // minimise the prefix greedily
                let mut pf = prefix.clone();
                let mut i = 0;
                while i < pf.len() {
                    let mut cand = pf.clone();
                    cand.remove(i);
                    if unchanged_after(&opts, &cand, &[culprit]).is_err() {
                        pf = cand;
                    } else {
                        i += 1;
                    }
                }
                let mask = culprit.bits ^ base.bits;
                c.fail(
                    format!("DF{} frame {} (intact {} with error pattern {:X}) fails the parity check (remainder {:06X}) but changed the table: {}", culprit.df(), culprit.hex(), base.hex(), mask, culprit.syndrome(), msg),
                    "c04:applied",
                    json!({"kind":"corrupt","opts":opts,"prefix":pf,"base":base,"mask":format!("{:X}", mask)}),
                );
                return;
            }
        }
    }
    if !c.failed() {
        wide_single_bit_layer(c);
    }
    if c.tier == crate::ctx::Tier::Thorough || true {
        c.exhaustive("per base frame: all 1-bit and 2-bit errors and all bursts up to length 10 over bits 6..len");
    }
}

/// Wide and shallow: many base frames (sparse payloads with runs of zero bytes as well as dense ones), every 1-bit error
/// of each, 64 bases per reader run on a table that already holds the intact frames' rows. A remainder routine with a
/// data-dependent shortcut is wrong for a small share of *frames*, which the deep layer's few dozen bases cannot sample.
fn wide_single_bit_layer(c: &mut Ctx) {
    let n = c.tier.pick(10_000usize, 150_000usize); // per worker
    let sparse = (gen::addr(), 0u32..8, any::<u64>(), any::<u64>(), any::<u64>(), 0u32..32, prop_oneof![Just(17u32), Just(18u32)]).prop_map(|(a, ca, x, y, z, tc, df)| {
        let me = (x & y & z & ((1u64 << 51) - 1)) | ((tc as u64) << 51);
        bits::es(df, ca, a, me)
    });
    let strat = prop_oneof![3 => base_frame(), 3 => sparse.boxed()];
    let bases = c.draw(n, strat);
    for (gi, group) in bases.chunks(64).enumerate() {
        // every presentation / logging option in turn: none of them may let a damaged squitter through
        let mut opts = Opts::quiet();
        match gi % 6 {
            1 => opts.m = Some(vec![17, 18, 11]),
            2 => opts.c = true,
            3 => opts.u = true,
            4 => { opts.r = true; opts.m = Some(vec![17]) }
            5 => opts.f = Some(vec![11, 17, 18]),
            _ => {}
        }
        // distinct addresses only (two bases of one aircraft would make the intact prefix order-dependent, not wrong, but keep it simple)
        let mut seen = std::collections::BTreeSet::new();
        let group: Vec<Frame> = group.iter().filter(|f| f.address() != 0 && seen.insert(f.address())).cloned().collect();
        let prefix: Vec<Step> = group.iter().map(|f| Step { ac: 0, frame: *f, dt: 0 }).collect();
        // positive control: every intact frame has its row
        match prepare(&opts, &prefix) {
            Err(m) => {
                c.fail(m, "c04:control", json!({"kind":"control","opts":opts,"base":group[0]}));
                return;
            }
            Ok(t) => {
                let snap = run::snapshot(&t);
                if let Some(b) = group.iter().find(|f| !snap.contains_key(&f.address())) {
                    c.fail(format!("intact DF{} frame {} (remainder {:06X}) was not applied", b.df(), b.hex(), b.syndrome()), "c04:control", json!({"kind":"control","opts":opts,"base":b}));
                    return;
                }
            }
        }
        let mut reject = Vec::with_capacity(group.len() * 107);
        for b in &group {
            for bit in 6..=b.len {
                let f = apply_mask(b, 1u128 << (b.len - bit));
                if parity_ok(&f) {
                    c.excluded("corrupted frame is still parity-valid by the reference (error inside the IC bits / undetectable pattern)");
                    continue;
                }
                reject.push(f);
            }
        }
        c.eval(reject.len() as u64);
        c.class_n("wide_single_bit", reject.len() as u64);
        c.nontrivial_enumerated(reject.len() as u64);
        if unchanged_after(&opts, &prefix, &reject).is_err() {
            let (culprit, msg) = bisect(&opts, &prefix, &reject);
            let base = group.iter().find(|b| b.len == culprit.len && (b.bits ^ culprit.bits).count_ones() == 1).cloned().unwrap_or(group[0]);
            let mask = culprit.bits ^ base.bits;
            let pf: Vec<Step> = vec![Step { ac: 0, frame: base, dt: 0 }];
            let pf = if unchanged_after(&opts, &pf, &[culprit]).is_err() { pf } else { prefix.clone() };
            c.fail(
                format!("DF{} frame {} (intact {} with error pattern {:X}) fails the parity check (remainder {:06X}) but changed the table: {}", culprit.df(), culprit.hex(), base.hex(), mask, culprit.syndrome(), msg),
                "c04:applied",
                json!({"kind":"corrupt","opts":opts,"prefix":pf,"base":base,"mask":format!("{:X}", mask)}),
            );
            return;
        }
    }
}

fn replay(c: &mut Ctx, case: &Value) {
    c.eval(1);
    let opts: Opts = serde_json::from_value(case["opts"].clone()).unwrap_or_default();
    let Ok(base) = serde_json::from_value::<Frame>(case["base"].clone()) else {
        c.inconclusive("bad replay file");
        return;
    };
    match case["kind"].as_str() {
        Some("control") => {
            if let Err(m) = positive_control(&opts, &base) {
                c.fail(m, "c04:control", case.clone());
            }
        }
        Some("adjacent") => {
            let mask = u128::from_str_radix(case["mask"].as_str().unwrap_or("0"), 16).unwrap_or(0);
            let f = apply_mask(&base, mask);
            if !parity_ok(&f) {
                let t1 = run::new_table();
                let t2 = run::new_table();
                let _ = run::run_lines(&opts, &t1, &[base.hex(), base.hex()]);
                let r2 = run::run_lines(&opts, &t2, &[base.hex(), base.hex(), f.hex()]);
                if r2.is_err() || run::no_clock(&run::snapshot(&t1)) != run::no_clock(&run::snapshot(&t2)) {
                    c.fail(format!("DF{} frame {} fails the parity check but changed the table when it arrived directly after its intact original {}", f.df(), f.hex(), base.hex()), "c04:applied", case.clone());
                }
            }
        }
        _ => {
            let prefix: Vec<Step> = serde_json::from_value(case["prefix"].clone()).unwrap_or_default();
            let mask = u128::from_str_radix(case["mask"].as_str().unwrap_or("0"), 16).unwrap_or(0);
            if let Err(m) = check_one(&opts, &prefix, &base, mask) {
                c.fail(m, "c04:applied", case.clone());
            }
        }
    }
}
