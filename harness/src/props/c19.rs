//! C19 — presentation options never change what is decoded; -U is decode-neutral.

use super::PropSpec;
use crate::alphabet::{self, airpos_me, Step};
use crate::bits::{self, Frame};
use crate::cli;
use crate::ctx::Ctx;
use crate::gen;
use crate::run::{self, Opts, Snap, TableSnap};
use proptest::prelude::*;
use serde::{Deserialize, Serialize};
use serde_json::{json, Value};

pub fn spec() -> PropSpec {
    PropSpec {
        id: "C19",
        level: "exploration",
        rule: "(a) differential: a generated history (frame alphabet for 1-4 aircraft and windows of the recorded files) is run under two generated option sets that agree in -U -R -f -d and differ in any of -i (incl. Q), -o, -c, -u, -M, -D and -O: the two tables must be equal (wall-clock stamps excluded; for -O also the distance). A share of the cases compares the CLI's last refresh with and without -l/-D/-M. (b) histories of DF4/5/11/17 frames whose carried values are all valid by construction (Q=1 altitudes >= 0, non-empty callsigns, non-zero velocity / vertical-rate / CPR fields, airborne positions), with time steps, run with and without -U: after every prefix callsign, altitude, squawk, position, ground speed, track, vertical rate, category and surveillance status must be equal. Non-trivial: (a) pairs differing in >= 2 options on histories of >= 10 frames; (b) histories containing a TC19, a valid CPR pair and a time step; distinct by hash",
        assumptions: &["-l installs a process-global logger and is exercised through the CLI only", "histories that take more than 0.9 s of real time are discarded (whole-second pairing window)"],
        workers: 16,
        also_nochk: false,
        fuzz_target: None,
        quick_budget_s: 900,
        thorough_budget_s: 3600,
        min_nontrivial_quick: 3_000,
        min_nontrivial_thorough: 80_000,
        run,
        replay,
    }
}

#[derive(Clone, Debug, Serialize, Deserialize, PartialEq)]
pub struct Pair {
    pub a: Opts,
    pub b: Opts,
    pub obs_a: Option<String>,
    pub obs_b: Option<String>,
    pub lines: Vec<Vec<u8>>,
}

fn presentation() -> impl Strategy<Value = (Vec<String>, Vec<String>, bool, i64, Option<Vec<u32>>, bool)> {
    let disp = prop_oneof![2 => Just("Q".to_string()), 1 => Just("aAews".to_string()), 3 => "[aAewsQxz]{1,6}"];
    let ord = prop_oneof![1 => Just("sA".to_string()), 3 => "[saAvVNSWEdDcCxq]{1,5}"];
    (disp.prop_map(|s| vec![s]), ord.prop_map(|s| vec![s]), any::<bool>(), proptest::sample::select(vec![-1i64, 0, 3, 1000]), prop_oneof![2 => Just(None), 1 => proptest::collection::vec(0u32..32, 1..3).prop_map(Some)], prop::bool::weighted(0.2))
}

fn pair_strategy(rec: std::sync::Arc<Vec<Vec<u8>>>) -> BoxedStrategy<Pair> {
    let nrec = rec.len().max(1);
    let line = prop_oneof![
        8 => (0usize..4).prop_flat_map(|a| alphabet::frame_any(gen::POOL[a])).prop_map(|f| f.hex().into_bytes()),
        2 => (0..nrec).prop_map(move |i| rec.get(i).cloned().unwrap_or_default()),
        1 => gen::junk_line(),
    ];
    // any observer: ordinary coordinates, the antipodes of the places the generated traffic flies at, non-finite values
    let obs = || prop_oneof![
        2 => Just(None),
        6 => (-80.0f64..80.0, -170.0f64..170.0).prop_map(|(a, b)| Some(format!("{:.2}, {:.2}", a, b))),
        1 => proptest::sample::select(vec!["-52.25,-176.08", "33.9,-28.8", "-10.2,0.05", "-64.1,158.1", "90,0", "-90,180", "0,0", "nan,nan", "inf,0", "0,-inf", "NaN, 12"]).prop_map(|s| Some(s.to_string())),
    ];
    let shared = (any::<bool>(), any::<bool>(), prop_oneof![3 => Just(None), 1 => proptest::sample::subsequence(bits::NINE.to_vec(), 2..8).prop_map(Some)], proptest::sample::select(vec![0i64, 60, 600, 100_000]));
    (shared, presentation(), presentation(), obs(), obs(), proptest::collection::vec(line, 1..60))
        .prop_map(|((u, r, f, d), pa, pb, obs_a, obs_b, lines)| {
            let mk = |p: (Vec<String>, Vec<String>, bool, i64, Option<Vec<u32>>, bool)| Opts { u, r, f: f.clone(), d, i: p.0, o: p.1, c: p.2, upd: p.3, m: p.4, dl: p.5, fmt: None };
            Pair { a: mk(pa), b: mk(pb), obs_a, obs_b, lines }
        })
        .boxed()
}

fn strip_dist(t: &TableSnap) -> TableSnap {
    t.iter().map(|(k, v)| { let mut s = v.clone(); s.dist = None; (*k, s) }).collect()
}

fn run_one(o: &Opts, obs: &Option<String>, data: &[u8]) -> Result<TableSnap, String> {
    // default observer of the program when -O is not given
    match obs {
        Some(s) => squitterator::set_observer_coords_from_str(s),
        None => squitterator::set_observer_coords_from_str("52.66411442720024, -8.622299905360963"),
    }
    let t = run::new_table();
    run::run_bytes(o, &t, data).map_err(|e| format!("reader failed with {}: {:?}", o.label(), e))?;
    Ok(run::no_clock(&run::snapshot(&t)))
}

fn check_pair(p: &Pair) -> Result<(), String> {
    let mut data = Vec::new();
    for l in &p.lines {
        data.extend_from_slice(l);
        data.push(b'\n');
    }
    let ta = run_one(&p.a, &p.obs_a, &data)?;
    let tb = run_one(&p.b, &p.obs_b, &data)?;
    let (ta, tb) = if p.obs_a != p.obs_b { (strip_dist(&ta), strip_dist(&tb)) } else { (ta, tb) };
    if ta != tb {
        return Err(format!("tables differ between [{}] and [{}] (observers {:?} / {:?}): {}", p.a.label(), p.b.label(), p.obs_a, p.obs_b, run::table_diff(&ta, &tb).iter().take(5).cloned().collect::<Vec<_>>().join("; ")));
    }
    Ok(())
}

fn differing(p: &Pair) -> usize {
    [p.a.i != p.b.i, p.a.o != p.b.o, p.a.c != p.b.c, p.a.upd != p.b.upd, p.a.m != p.b.m, p.a.dl != p.b.dl, p.obs_a != p.obs_b].iter().filter(|x| **x).count()
}

/// CLI: last refresh must not depend on -l / -D / -M
fn check_cli_logging(lines: &[Vec<u8>], u: bool) -> Result<(), String> {
    let dir = run::tmp_dir();
    let p = dir.join(format!("c19-{}.txt", std::process::id()));
    let mut data = Vec::new();
    for l in lines {
        data.extend_from_slice(l);
        data.push(b'\n');
    }
    std::fs::write(&p, &data).map_err(|e| e.to_string())?;
    let o = Opts { u, i: vec!["aAsw".into()], upd: -1, ..Opts::default() };
    let mut last = Vec::new();
    for extra in [vec![], vec!["-l".to_string(), format!("{}.log", p.display()), "-M".into(), "17".into(), "-M".into(), "4".into(), "-D".into(), format!("{}.dl", p.display())]] {
        let out = cli::run_file(true, &o, &p.to_string_lossy(), &extra, true, std::time::Duration::from_secs(60)).map_err(|e| e.to_string())?;
        if out.timed_out {
            return Err("TIMEOUT".into());
        }
        if out.status != Some(0) {
            return Err(format!("CLI with {:?} ended with {:?}/{:?}: {}", extra, out.status, out.signal, out.stderr));
        }
        let (_, rs) = cli::parse_refreshes(&String::from_utf8_lossy(&out.stdout));
        last.push(rs.last().map(|r| r.rows.iter().map(|x| { let cs: Vec<char> = x.chars().collect(); cs[..cs.len().saturating_sub(2)].iter().collect::<String>() }).collect::<Vec<_>>()).unwrap_or_default());
    }
    if last[0] != last[1] {
        return Err(format!("CLI: last refresh differs with -l/-M/-D: {:?} vs {:?}", last[0], last[1]));
    }
    Ok(())
}

// ---- (b) -U neutrality -----------------------------------------------------------------------

fn valid_frame(addr: u32, base: (f64, f64)) -> BoxedStrategy<Frame> {
    prop_oneof![
        3 => (gen::ac13_valid(), gen::fill128()).prop_map(move |(ac, fill)| bits::df4(addr, ac, fill)),
        3 => (gen::id13(), gen::fill128()).prop_map(move |(id, fill)| bits::df5(addr, id, fill)),
        2 => (0u32..8, 0u32..128).prop_map(move |(ca, ic)| bits::df11(addr, ca, ic)),
        3 => (1u32..=4, 0u32..8, 0u32..8, gen::chars8_valid()).prop_map(move |(tc, cat, ca, ch)| bits::es(17, ca, addr, bits::me_ident(tc, cat, ch))),
        // the same callsign again under another type code / category
        2 => (1u32..=4, 0u32..8, 0u32..8, gen::chars8_pool()).prop_map(move |(tc, cat, ca, ch)| bits::es(17, ca, addr, bits::me_ident(tc, cat, ch))),
        6 => (9u32..=18, 0u32..4, gen::ac12_valid(), any::<bool>(), -0.02f64..0.02, -0.02f64..0.02, 0u32..8).prop_map(move |(tc, ss, ac, odd, dx, dy, ca)| bits::es(17, ca, addr, airpos_me(tc, ss, ac, odd, base.0 + dx, base.1 + dy))),
        4 => (gen::vel_valid(), 0u32..8).prop_map(move |(v, ca)| bits::es(17, ca, addr, bits::me_velocity(&v))),
        // surface position (movement, valid ground track, non-zero CPR fields): blanks the altitude on both paths
        2 => (5u32..=8, 1u32..125, 0u32..128, any::<bool>(), -0.02f64..0.02, -0.02f64..0.02, 0u32..8).prop_map(move |(tc, mov, trk, odd, dx, dy, ca)| {
            let (yz, xz, _, _) = crate::refdec::cpr_encode(base.0 + dx, base.1 + dy, odd);
            bits::es(17, ca, addr, bits::me_surfpos(tc, mov, 1, trk, 0, odd as u32, yz.max(1), xz.max(1)))
        }),
        1 => (prop_oneof![Just(28u32), Just(29u32), Just(31u32)], gen::fill64(), 0u32..8).prop_map(move |(tc, fill, ca)| bits::es(17, ca, addr, bits::me_raw(tc, fill))),
    ]
    .boxed()
}

const BASES: [(f64, f64); 4] = [(52.25, 3.92), (-33.9, 151.2), (10.2, -179.95), (64.1, -21.9)];

fn valid_history() -> BoxedStrategy<Vec<Step>> {
    let step = (0usize..4, prop_oneof![3 => Just(0i64), 1 => 1i64..=12]).prop_flat_map(|(ac, dt)| (Just(ac), valid_frame(gen::POOL[ac], BASES[ac]), Just(dt))).prop_map(|(ac, frame, dt)| Step { ac, frame, dt });
    proptest::collection::vec(step, 3..50).boxed()
}

fn neutral_view(s: &Snap) -> (String, Option<u32>, Option<u32>, u64, u64, Option<u32>, Option<u32>, Option<i32>, (u32, u32), char) {
    (s.ais.clone().unwrap_or_default(), s.altitude, s.squawk, s.lat, s.lon, s.grspeed, s.track, s.vrate, s.category, s.surveillance_status)
}

fn check_neutral(steps: &[Step], relaxed: bool) -> Result<bool, String> {
    let o0 = Opts::quiet().with_r(relaxed);
    let o1 = Opts::quiet().with_r(relaxed).with_u(true);
    let t0 = run::new_table();
    let t1 = run::new_table();
    let started = std::time::Instant::now();
    for (i, s) in steps.iter().enumerate() {
        run::shift_time(&t0, s.dt);
        run::shift_time(&t1, s.dt);
        run::run_lines(&o0, &t0, &[s.frame.hex()]).map_err(|e| format!("step {}: reader failed: {:?}", i, e))?;
        run::run_lines(&o1, &t1, &[s.frame.hex()]).map_err(|e| format!("step {} (-U): reader failed: {:?}", i, e))?;
        if started.elapsed().as_secs_f64() > 0.9 {
            return Ok(false);
        }
        let a = run::snapshot(&t0);
        let b = run::snapshot(&t1);
        if a.keys().collect::<Vec<_>>() != b.keys().collect::<Vec<_>>() {
            return Err(format!("step {}: aircraft in the table differ with and without -U", i));
        }
        for (k, ra) in &a {
            let rb = &b[k];
            if neutral_view(ra) != neutral_view(rb) {
                return Err(format!("step {} (DF{} frame {} for {:06X}): row {:06X} differs with and without -U: (callsign, altitude, squawk, lat, lon, gs, track, vrate, category, surveillance) = {:?} vs {:?}", i, s.frame.df(), s.frame.hex(), gen::POOL[s.ac], k, neutral_view(ra), neutral_view(rb)));
            }
        }
    }
    Ok(true)
}

fn rec_lines() -> Vec<Vec<u8>> {
    let mut v = Vec::new();
    if let Ok(b) = std::fs::read("/repo/rec/squitters.txt") {
        for (i, l) in b.split(|c| *c == b'\n').enumerate() {
            if i % 53 == 0 && !l.is_empty() && l.len() < 80 {
                v.push(l.iter().cloned().filter(|c| *c != b'\r').collect());
            }
        }
    }
    v
}

fn run(c: &mut Ctx) {
    let rec = std::sync::Arc::new(rec_lines());
    let cases = c.tier.pick(16_000, 300_000);
    let r = c.proptest(cases, pair_strategy(rec.clone()), |c, p, counting| {
        check_pair(p)?;
        if counting {
            c.eval(2);
            let d = differing(p);
            if d >= 2 && p.lines.len() >= 10 {
                c.nontrivial(&format!("{:?}", p));
                c.class("pair_ge2_options_ge10_frames");
            } else {
                c.class("pair_other");
            }
            if p.obs_a != p.obs_b { c.class("differs_in_O"); }
            if p.a.is_quiet() != p.b.is_quiet() { c.class("differs_in_Q"); }
            if p.a.dl != p.b.dl { c.class("differs_in_D"); }
            if c.want_sample() && d >= 3 && p.lines.len() < 14 {
                c.sample(json!({"opts_a": p.a.label(), "opts_b": p.b.label(), "observer_a": p.obs_a, "observer_b": p.obs_b, "lines": p.lines.iter().map(|l| String::from_utf8_lossy(l).to_string()).collect::<Vec<_>>()}));
            }
        }
        Ok(())
    });
    if let Some((p, m)) = r {
        c.fail(m, "c19:presentation", json!({"kind":"pair","p":p}));
        return;
    }
    let cases = c.tier.pick(20_000, 400_000);
    let r = c.proptest(cases, (valid_history(), prop::bool::weighted(0.2)), |c, (steps, relaxed), counting| {
        let ok = check_neutral(steps, *relaxed)?;
        if counting {
            c.eval(steps.len() as u64);
            if !ok {
                c.excluded("ambiguous_wallclock (history took > 0.9 s)");
                return Ok(());
            }
            let has19 = steps.iter().any(|s| s.frame.df() == 17 && s.frame.get(33, 37) == 19);
            let has_dt = steps.iter().any(|s| s.dt > 0);
            let mut pair = false;
            for a in 0..4 {
                let mut last: [Option<usize>; 2] = [None, None];
                let mut t = 0i64;
                let mut times = [0i64; 2];
                for (i, s) in steps.iter().enumerate() {
                    t += s.dt;
                    if s.ac == a && s.frame.df() == 17 && (9..=18).contains(&(s.frame.get(33, 37) as u32)) {
                        let odd = s.frame.get(54, 54) as usize;
                        last[odd] = Some(i);
                        times[odd] = t;
                        if last[0].is_some() && last[1].is_some() && (times[0] - times[1]).abs() < 10 {
                            pair = true;
                        }
                    }
                }
            }
            if has19 && has_dt && pair {
                c.nontrivial(&format!("{:?}", steps));
                c.class("neutral_tc19_pair_timestep");
            } else {
                c.class("neutral_other");
            }
        }
        Ok(())
    });
    if let Some(((steps, relaxed), m)) = r {
        c.fail(m, "c19:update_method", json!({"kind":"neutral","steps":steps,"relaxed":relaxed}));
        return;
    }
    // CLI logging options
    let cases = c.tier.pick(96, 2_000);
    let lines_strat = (proptest::collection::vec((0usize..4).prop_flat_map(|a| alphabet::frame_any(gen::POOL[a])).prop_map(|f| f.hex().into_bytes()), 2..30), any::<bool>());
    let r = c.proptest(cases, lines_strat, |c, (lines, u), counting| match check_cli_logging(lines, *u) {
        Ok(()) => {
            if counting {
                c.eval(2);
                c.class("cli_logging_pair");
            }
            Ok(())
        }
        Err(e) if e == "TIMEOUT" => {
            c.inconclusive("CLI timeout");
            Ok(())
        }
        Err(e) => Err(e),
    });
    if let Some(((lines, u), m)) = r {
        c.fail(m, "c19:logging", json!({"kind":"cli","lines":lines,"u":u}));
    }
}

fn replay(c: &mut Ctx, case: &Value) {
    c.eval(1);
    match case["kind"].as_str() {
        Some("pair") => {
            let Ok(p) = serde_json::from_value::<Pair>(case["p"].clone()) else { return c.inconclusive("bad replay") };
            if let Err(m) = check_pair(&p) {
                c.fail(m, "c19:presentation", case.clone());
            }
        }
        Some("neutral") => {
            let Ok(steps) = serde_json::from_value::<Vec<Step>>(case["steps"].clone()) else { return c.inconclusive("bad replay") };
            if let Err(m) = check_neutral(&steps, case["relaxed"].as_bool().unwrap_or(false)) {
                c.fail(m, "c19:update_method", case.clone());
            }
        }
        _ => {
            let lines: Vec<Vec<u8>> = serde_json::from_value(case["lines"].clone()).unwrap_or_default();
            if let Err(m) = check_cli_logging(&lines, case["u"].as_bool().unwrap_or(false)) {
                if m != "TIMEOUT" {
                    c.fail(m, "c19:logging", case.clone());
                }
            }
        }
    }
}
