//! C07 — callsign and emitter category are decoded character-exactly.

use super::PropSpec;
use crate::bits::{self, Frame};
use crate::ctx::Ctx;
use crate::gen;
use crate::refdec::{callsign, wake_letter};
use crate::render;
use crate::run::{self, Opts};
use proptest::prelude::*;
use serde::{Deserialize, Serialize};
use serde_json::{json, Value};

pub fn spec() -> PropSpec {
    PropSpec {
        id: "C07",
        level: "exploration",
        rule: "(a) identification squitters: the grid position 1..8 x character code 0..63 is enumerated completely (other seven characters, TC 1..4, CA 0..7, address, creating vs update path, -U/-R generated), plus generated 48-bit strings; oracle = mapped characters in order (1-26 A-Z, 48-57 0-9, rest omitted), category == (TC, CA), and the W / CALLSIGN cells of the row printed by Planes::print (wake letter table L S M H J R for TC4). (b) BDS 2,0 in DF20 and DF21 under each gate state (no capability seen, DF11 CA 0..3, DF11 CA 4..7, -R): callsign changes iff the gate is open, then to the decoded string. (c) generated callsign report sequences of one aircraft with the gate open: 3..11 identification squitters / BDS 2,0 replies in DF20 / DF21 in any mix, callsigns from a pool of two or three strings, the row shows the latest report's callsign after every step (a callsign that returns after another was shown; non-trivial = such a return). Non-trivial = grid cells and gate-open BDS 2,0 cases; distinct by hash",
        assumptions: &["Some(\"\") and None both render blank and are not distinguished", "gate states where the capability was only seen in a DF17 header are not used here (see C10)"],
        workers: 16,
        also_nochk: false,
        fuzz_target: None,
        quick_budget_s: 900,
        thorough_budget_s: 3600,
        min_nontrivial_quick: 40_000,
        min_nontrivial_thorough: 400_000,
        run,
        replay,
    }
}

#[derive(Clone, Debug, Serialize, Deserialize, PartialEq, Eq, Hash)]
pub struct Ident {
    pub opts: Opts,
    pub addr: u32,
    pub tc: u32,
    pub ca: u32,
    pub hdr_ca: u32,
    pub chars: [u8; 8],
    pub update: bool,
    pub df18: bool,
    /// on the update path: the row already shows the same callsign (with another category) instead of a different one
    #[serde(default)]
    pub same_callsign_before: bool,
}

const FOREIGN_AC: u32 = 0x4840D6;

fn ident_frame(i: &Ident) -> Frame {
    bits::es(if i.df18 { 18 } else { 17 }, i.hdr_ca, i.addr, bits::me_ident(i.tc, i.ca, i.chars))
}

fn check_ident(i: &Ident) -> Result<(), String> {
    let t = run::new_table();
    let mut lines = Vec::new();
    if i.update {
        lines.push(bits::df11(i.addr, 5, 0).hex());
        let prev_chars = if i.same_callsign_before { i.chars } else { [17, 17, 17, 48, 49, 50, 32, 32] };
        // the earlier identification differs in the category, and (unless the address is odd) in the type code as well
        let prev_tc = if i.addr % 2 == 1 { i.tc } else if i.tc == 2 { 3 } else { 2 };
        lines.push(bits::es(17, 5, i.addr, bits::me_ident(prev_tc, (i.ca + 1) % 8, prev_chars)).hex());
    }
    let f = ident_frame(i);
    lines.push(f.hex());
    run::run_lines(&i.opts, &t, &lines).map_err(|e| format!("reader failed: {:?}", e))?;
    let snap = run::snapshot(&t);
    let row = snap.get(&i.addr).ok_or_else(|| format!("no row for {:06X} after {}", i.addr, f.hex()))?;
    if i.df18 && (!i.opts.u || !i.update) {
        // DF18 payloads are decoded only on the -U update path; elsewhere the row keeps what it had (unconstrained)
        return Ok(());
    }
    let want = callsign(&i.chars);
    let got = row.ais.clone().unwrap_or_default();
    if got != want {
        return Err(format!("identification squitter {} (TC{} CA{} chars {:?}): callsign {:?}, expected {:?} [{} path, {}]", f.hex(), i.tc, i.ca, i.chars, got, want, if i.update { "update" } else { "create" }, i.opts.label()));
    }
    if row.category != (i.tc, i.ca) {
        return Err(format!("identification squitter {}: emitter category {:?}, expected ({}, {})", f.hex(), row.category, i.tc, i.ca));
    }
    // rendering (only when the country code fits its 2-character column, otherwise the row is shifted)
    if row.reg.chars().count() > 2 {
        return Ok(());
    }
    let mut o = i.opts.clone();
    o.i = vec!["".into()];
    let rows = render::print_table(&t, &o);
    let line = rows.iter().find(|l| l.starts_with(&format!("{:06X}", i.addr))).ok_or_else(|| "row not printed".to_string())?;
    let cells = render::cells("", line).ok_or_else(|| format!("printed row too short: {:?}", line))?;
    let w = cells["W"].trim().to_string();
    let want_w = wake_letter(i.tc, i.ca).map(|c| c.to_string()).unwrap_or_default();
    if w != want_w {
        return Err(format!("identification squitter {} (TC{} CA{}): W column shows {:?}, expected {:?}", f.hex(), i.tc, i.ca, w, want_w));
    }
    if cells["CALLSIGN"].trim_end() != want {
        return Err(format!("identification squitter {}: CALLSIGN column shows {:?}, expected {:?}", f.hex(), cells["CALLSIGN"], want));
    }
    Ok(())
}

#[derive(Clone, Debug, Serialize, Deserialize, PartialEq, Eq, Hash)]
pub struct B20 {
    pub opts: Opts,
    pub addr: u32,
    /// None = no capability seen; Some(ca) = DF11 with that CA
    pub gate_ca: Option<u32>,
    pub df21: bool,
    pub code13: u32,
    pub chars: [u8; 8],
}

fn check_b20(b: &B20) -> Result<bool, String> {
    let t = run::new_table();
    let prev_chars = [20u8, 5, 19, 20, 48, 49, 32, 32]; // TEST01
    let mut lines = vec![bits::df4(b.addr, bits::ac13_q1(800), 0).hex()];
    if let Some(ca) = b.gate_ca {
        lines.push(bits::df11(b.addr, ca, 0).hex());
    }
    // an identification squitter with CA field copied from the gate so that it cannot open it by itself
    lines.push(bits::es(17, b.gate_ca.unwrap_or(0), b.addr, bits::me_ident(4, 3, prev_chars)).hex());
    if let Some(ca) = b.gate_ca {
        lines.push(bits::df11(b.addr, ca, 0).hex());
    }
    let mb = gen::mb20(b.chars);
    let f = if b.df21 { bits::df21(b.addr, b.code13, mb, 0) } else { bits::df20(b.addr, b.code13, mb, 0) };
    lines.push(f.hex());
    run::run_lines(&b.opts, &t, &lines).map_err(|e| format!("reader failed: {:?}", e))?;
    let snap = run::snapshot(&t);
    let row = snap.get(&b.addr).ok_or_else(|| format!("no row for {:06X}", b.addr))?;
    let open = b.opts.r || b.gate_ca.map(|c| c >= 4).unwrap_or(false);
    let got = row.ais.clone().unwrap_or_default();
    let want = if open { callsign(&b.chars) } else { "TEST01".to_string() };
    if got != want {
        return Err(format!(
            "BDS 2,0 in DF{} frame {} with gate {} (capability {:?}, {}): callsign {:?}, expected {:?}",
            f.df(), f.hex(), if open { "open" } else { "closed" }, b.gate_ca, b.opts.label(), got, want
        ));
    }
    Ok(open)
}

fn run(c: &mut Ctx) {
    // (a) grid p x code, context generated
    let reps = c.tier.pick(40usize, 400usize);
    let ctxs = c.draw(8 * 64 * reps, (gen::opts_ur(), gen::addr(), 1u32..=4, 0u32..8, 0u32..8, gen::chars8(), any::<bool>(), prop::bool::weighted(0.1)));
    let mut k = 0usize;
    for rep in 0..reps {
        for p in 0..8usize {
            for code in 0..64u8 {
                let (opts, addr, tc, ca, hdr_ca, mut chars, update, df18) = ctxs[k].clone();
                let idx = k as u64;
                k += 1;
                if !c.mine(idx) {
                    continue;
                }
                chars[p] = code;
                let i = Ident { opts, addr, tc, ca, hdr_ca, chars, update, df18, same_callsign_before: (k % 3) == 0 };
                c.eval(1);
                match check_ident(&i) {
                    Ok(()) => {
                        if !df18 {
                            c.nontrivial(&i);
                            c.class("grid_cell");
                        } else {
                            c.excluded("DF18 payload (unconstrained unless -U update path)");
                        }
                        if c.want_sample() && rep == 0 && code % 9 == 3 {
                            c.sample(json!({"frame": ident_frame(&i).hex(), "chars": i.chars, "callsign": callsign(&i.chars), "tc": tc, "ca": ca, "path": if update {"update"} else {"create"}, "opts": i.opts.label()}));
                        }
                    }
                    Err(m) => {
                        if !c.failed() {
                            c.fail(m, "c07:ident", json!({"kind":"ident","i":i}));
                        }
                    }
                }
            }
        }
    }
    c.exhaustive("character position 1..8 x 6-bit code 0..63");
    // TC x CA complete with wake letters
    if c.worker == 0 {
        for tc in 1..=4 {
            for ca in 0..8 {
                for u in [false, true] {
                    let i = Ident { opts: Opts::quiet().with_u(u), addr: 0x400000 + tc * 8 + ca, tc, ca, hdr_ca: 5, chars: [1, 2, 3, 49, 50, 51, 32, 32], update: u, df18: false, same_callsign_before: ca % 2 == 0 };
                    c.eval(1);
                    c.class("tc_ca_grid");
                    c.nontrivial(&i);
                    if let Err(m) = check_ident(&i) {
                        if !c.failed() {
                            c.fail(m, "c07:ident", json!({"kind":"ident","i":i}));
                        }
                    }
                }
            }
        }
    }
    // adjacency: an identification squitter directly followed (next line, another aircraft) by one whose callsign
    // differs in exactly one character position
    {
        let n = c.tier.pick(400usize, 4000usize);
        let seeds = c.draw(n, (gen::chars8_valid(), 0usize..8, prop_oneof![1u8..=26, 48u8..=57], 1u32..=4, 0u32..8, any::<bool>(), any::<bool>()));
        let mine: Vec<_> = seeds.into_iter().enumerate().filter(|(i, _)| c.mine(*i as u64)).collect();
        for chunk in mine.chunks(200) {
            for u in [false, true] {
                let mut lines = Vec::new();
                let mut expect = Vec::new();
                for (i, (chars, pos, ch, tc, ca, bds, same)) in chunk {
                    let a1 = 0x100000 | *i as u32;
                    // half of the pairs are two consecutive frames of the *same* aircraft: the second string must replace the first
                    let a2 = if *same { a1 } else { 0x200000 | *i as u32 };
                    let mut other = *chars;
                    other[*pos] = if other[*pos] == *ch { if *ch == 1 { 2 } else { 1 } } else { *ch };
                    lines.push(bits::df11(a1, 5, 0).hex());
                    lines.push(bits::df11(a2, 5, 0).hex());
                    if *bds {
                        lines.push(bits::df20(a1, bits::ac13_q1(1000), gen::mb20(*chars), 0).hex());
                        lines.push(bits::df21(a2, 0, gen::mb20(other), 0).hex());
                    } else {
                        lines.push(bits::es(17, 5, a1, bits::me_ident(*tc, *ca, *chars)).hex());
                        lines.push(bits::es(17, 5, a2, bits::me_ident(*tc, *ca, other)).hex());
                    }
                    if !*same {
                        expect.push((a1, callsign(chars)));
                    }
                    expect.push((a2, callsign(&other)));
                }
                let t = run::new_table();
                if let Err(e) = run::run_lines(&Opts::quiet().with_u(u), &t, &lines) {
                    c.fail(format!("reader failed: {:?}", e), "c07:ident", json!({"kind":"none"}));
                    return;
                }
                let snap = run::snapshot(&t);
                c.eval(expect.len() as u64);
                c.class_n("one_character_neighbour_pairs", chunk.len() as u64);
                for (a, want) in &expect {
                    let got = snap.get(a).and_then(|r| r.ais.clone()).unwrap_or_default();
                    if &got != want && !c.failed() {
                        c.fail(format!("callsign of {:06X} is {:?}, expected {:?} (its frame arrived directly after a frame - of this or of another aircraft - whose callsign differs in one character)", a, got, want), "c07:adjacent", json!({"kind":"lines","u":u,"lines":lines,"addr":a,"want":want}));
                    }
                }
            }
        }
    }
    // frames that are neither identification squitters nor Comm-B replies leave callsign and category alone
    {
        let cases = c.tier.pick(3_000, 60_000);
        let foreign = crate::alphabet::frame_any(FOREIGN_AC).prop_filter("not an identification squitter / Comm-B reply", |f| {
            let tc = f.get(33, 37);
            !(f.df() == 20 || f.df() == 21 || ((f.df() == 17 || f.df() == 18) && (1..=4).contains(&tc)))
        });
        let strat = (gen::opts_ur(), gen::chars8_valid(), 1u32..=4, 0u32..8, proptest::collection::vec(prop_oneof![8 => foreign, 1 => crate::alphabet::other_df_frame(FOREIGN_AC)], 1..20));
        let r = c.proptest(cases, strat, |c, (opts, chars, tc, ca, frames), counting| {
            let t = run::new_table();
            let mut lines = vec![bits::df11(FOREIGN_AC, 5, 0).hex(), bits::es(17, 5, FOREIGN_AC, bits::me_ident(*tc, *ca, *chars)).hex()];
            lines.extend(frames.iter().map(|f| f.hex()));
            run::run_lines(opts, &t, &lines).map_err(|e| format!("reader failed: {:?}", e))?;
            let snap = run::snapshot(&t);
            let row = snap.get(&FOREIGN_AC).ok_or("row missing")?;
            let got = row.ais.clone().unwrap_or_default();
            if got != callsign(chars) || row.category != (*tc, *ca) {
                // find the first frame that did it
                let mut culprit = String::new();
                for k in 0..frames.len() {
                    let t2 = run::new_table();
                    let _ = run::run_lines(opts, &t2, &lines[..3 + k]);
                    let s2 = run::snapshot(&t2);
                    if let Some(r2) = s2.get(&FOREIGN_AC) {
                        if r2.ais.clone().unwrap_or_default() != callsign(chars) || r2.category != (*tc, *ca) {
                            culprit = format!("DF{} frame {}", frames[k].df(), frames[k].hex());
                            break;
                        }
                    }
                }
                return Err(format!("callsign/category of {:06X} changed from {:?}/({},{}) to {:?}/{:?} by frames that are not identification squitters ({}; {})", FOREIGN_AC, callsign(chars), tc, ca, got, row.category, culprit, opts.label()));
            }
            if counting {
                c.eval(1);
                c.class("foreign_frames_after_identification");
                c.nontrivial(&format!("{:?}{:?}", chars, frames));
            }
            Ok(())
        });
        if let Some(((opts, chars, tc, ca, frames), m)) = r {
            c.fail(m, "c07:foreign", json!({"kind":"foreign","opts":opts,"chars":chars,"tc":tc,"ca":ca,"frames":frames}));
            return;
        }
    }
    // generated strings
    let cases = c.tier.pick(30_000, 400_000);
    let strat = (gen::opts_ur(), gen::addr(), 1u32..=4, 0u32..8, 0u32..8, proptest::array::uniform8(0u8..64), any::<bool>(), any::<bool>()).prop_map(|(opts, addr, tc, ca, hdr_ca, chars, update, same)| Ident { opts, addr, tc, ca, hdr_ca, chars, update, df18: false, same_callsign_before: same });
    let r = c.proptest(cases, strat, |c, i, counting| {
        check_ident(i)?;
        if counting {
            c.eval(1);
            c.nontrivial(i);
            c.class("random_string");
        }
        Ok(())
    });
    if let Some((i, m)) = r {
        c.fail(m, "c07:ident", json!({"kind":"ident","i":i}));
        return;
    }
    // (b) BDS 2,0
    let cases = c.tier.pick(30_000, 400_000);
    let strat = (gen::opts_ur(), gen::addr(), prop_oneof![1 => Just(None), 4 => (0u32..8).prop_map(Some)], any::<bool>(), 0u32..8192, prop_oneof![10 => gen::chars8(), 1 => Just([32u8; 8]), 1 => Just([0u8; 8]), 1 => proptest::array::uniform8(prop_oneof![Just(32u8), Just(0u8), Just(63u8), Just(27u8)])]).prop_map(|(opts, addr, gate_ca, df21, code13, chars)| B20 { opts, addr, gate_ca, df21, code13, chars });
    let r = c.proptest(cases, strat, |c, b, counting| {
        let open = check_b20(b)?;
        if counting {
            c.eval(1);
            if open {
                c.nontrivial(b);
                c.class("bds20_gate_open");
            } else {
                c.class("bds20_gate_closed");
            }
            if c.out.samples.len() < 8 && open {
                c.sample(json!({"bds20": gen::mb20(b.chars), "callsign": callsign(&b.chars), "gate_ca": b.gate_ca, "df": if b.df21 {21} else {20}, "opts": b.opts.label()}));
            }
        }
        Ok(())
    });
    if let Some((b, m)) = r {
        c.fail(m, "c07:bds20", json!({"kind":"b20","b":b}));
        return;
    }
    // (c) callsign report sequences of one aircraft
    let cases = c.tier.pick(6_000, 60_000);
    let r = c.proptest(cases, seq_strategy(), |c, q, counting| {
        check_seq(q)?;
        if counting {
            c.eval(1);
            let ks: Vec<String> = q.steps.iter().map(|(_, k, _)| callsign(&q.pool[(*k as usize) % q.pool.len()])).collect();
            let returns = (2..ks.len()).any(|i| (0..i - 1).any(|j| ks[j] == ks[i] && ks[j + 1..i].iter().any(|x| *x != ks[i])));
            if returns {
                c.nontrivial(&format!("{:?}", q));
                c.class("report_sequence_callsign_returns");
            } else {
                c.class("report_sequence_no_return");
            }
        }
        Ok(())
    });
    if let Some((q, m)) = r {
        c.fail(m, "c07:sequence", json!({"kind":"sequence","q":q}));
    }
}

/// A sequence of callsign reports of ONE aircraft (identification squitters and BDS 2,0 replies in DF20 / DF21, gate
/// open) whose callsigns come from a pool of two or three strings, so that a callsign returns after another one was
/// shown in between (X, Y, X) through the same or another format.
#[derive(Clone, Debug, Serialize, Deserialize)]
pub struct Seq {
    pub opts: Opts,
    pub pool: Vec<[u8; 8]>,
    pub steps: Vec<(u8, u8, u32)>, // (format 0 = DF17 TC4, 1 = DF20 BDS 2,0, 2 = DF21 BDS 2,0; pool index; AC/ID field)
}

fn seq_strategy() -> impl Strategy<Value = Seq> {
    (gen::opts_ur(), proptest::collection::vec(gen::chars8(), 2..4), proptest::collection::vec((0u8..3, 0u8..3, prop_oneof![Just(0u32), 0u32..8192]), 3..12)).prop_map(|(opts, pool, steps)| Seq { opts, pool, steps })
}

fn check_seq(q: &Seq) -> Result<(), String> {
    if q.pool.is_empty() {
        return Ok(());
    }
    let t = run::new_table();
    run::run_lines(&q.opts, &t, &[bits::df11(FOREIGN_AC, 5, 0).hex()]).map_err(|e| format!("reader failed: {:?}", e))?;
    let mut shown: Vec<String> = Vec::new();
    for (i, (f, k, code)) in q.steps.iter().enumerate() {
        let chars = q.pool[(*k as usize) % q.pool.len()];
        let frame = match f % 3 {
            0 => bits::es(17, 5, FOREIGN_AC, bits::me_ident(4, 3, chars)),
            1 => bits::df20(FOREIGN_AC, bits::ac13_q1(40 + code % 2000), gen::mb20(chars), 0),
            _ => bits::df21(FOREIGN_AC, *code, gen::mb20(chars), 0),
        };
        run::run_lines(&q.opts, &t, &[frame.hex()]).map_err(|e| format!("reader failed on {}: {:?}", frame.hex(), e))?;
        let got = run::snapshot(&t).get(&FOREIGN_AC).and_then(|r| r.ais.clone()).unwrap_or_default();
        let want = callsign(&chars);
        shown.push(format!("DF{}:{:?}", frame.df(), want));
        if got != want {
            return Err(format!("callsign report sequence {} [{}]: after step {} (frame {}) the row shows callsign {:?}, the latest report carries {:?}", shown.join(" "), q.opts.label(), i, frame.hex(), got, want));
        }
    }
    Ok(())
}

fn replay(c: &mut Ctx, case: &Value) {
    c.eval(1);
    match case["kind"].as_str() {
        Some("sequence") => {
            let Ok(q) = serde_json::from_value::<Seq>(case["q"].clone()) else { return c.inconclusive("bad replay") };
            if let Err(m) = check_seq(&q) {
                c.fail(m, "c07:sequence", case.clone());
            }
        }
        Some("foreign") => {
            let opts: Opts = serde_json::from_value(case["opts"].clone()).unwrap_or_default();
            let chars: [u8; 8] = serde_json::from_value(case["chars"].clone()).unwrap_or([1; 8]);
            let tc = case["tc"].as_u64().unwrap_or(1) as u32;
            let ca = case["ca"].as_u64().unwrap_or(0) as u32;
            let frames: Vec<Frame> = serde_json::from_value(case["frames"].clone()).unwrap_or_default();
            let t = run::new_table();
            let mut lines = vec![bits::df11(FOREIGN_AC, 5, 0).hex(), bits::es(17, 5, FOREIGN_AC, bits::me_ident(tc, ca, chars)).hex()];
            lines.extend(frames.iter().map(|f| f.hex()));
            let _ = run::run_lines(&opts, &t, &lines);
            let snap = run::snapshot(&t);
            if let Some(row) = snap.get(&FOREIGN_AC) {
                if row.ais.clone().unwrap_or_default() != callsign(&chars) || row.category != (tc, ca) {
                    c.fail(format!("callsign/category changed to {:?}/{:?} by frames that are not identification squitters", row.ais, row.category), "c07:foreign", case.clone());
                }
            }
        }
        Some("lines") => {
            let lines: Vec<String> = serde_json::from_value(case["lines"].clone()).unwrap_or_default();
            let t = run::new_table();
            let _ = run::run_lines(&Opts::quiet().with_u(case["u"].as_bool().unwrap_or(false)), &t, &lines);
            let a = case["addr"].as_u64().unwrap_or(0) as u32;
            let want = case["want"].as_str().unwrap_or("");
            let got = run::snapshot(&t).get(&a).and_then(|r| r.ais.clone()).unwrap_or_default();
            if got != want {
                c.fail(format!("callsign of {:06X} is {:?}, expected {:?}", a, got, want), "c07:adjacent", case.clone());
            }
        }
        Some("b20") => {
            let Ok(b) = serde_json::from_value::<B20>(case["b"].clone()) else { return c.inconclusive("bad replay") };
            if let Err(m) = check_b20(&b) {
                c.fail(m, "c07:bds20", case.clone());
            }
        }
        _ => {
            let Ok(i) = serde_json::from_value::<Ident>(case["i"].clone()) else { return c.inconclusive("bad replay") };
            if let Err(m) = check_ident(&i) {
                c.fail(m, "c07:ident", case.clone());
            }
        }
    }
}
