//! C03 — every frame is attributed to exactly the address it encodes; rows are isolated.

use super::PropSpec;
use crate::alphabet::{self, Step};
use crate::bits::{self, Frame, NINE};
use crate::ctx::Ctx;
use crate::gen;
use crate::run::{self, Opts};
use proptest::prelude::*;
use serde_json::{json, Value};

pub fn spec() -> PropSpec {
    PropSpec {
        id: "C03",
        level: "exploration",
        rule: "(a) frames of the nine formats built by an independent CRC-24 (AP = CRC xor address / AA field) for enumerated and generated addresses and generated payloads: public get_icao and the row key created by the reader must equal the builder's address, address 0 must leave the table unchanged; (b) generated interleaved histories of 2-4 aircraft over the whole frame alphabet, one reader run per frame on a persistent table, full snapshot (all fields incl. time stamps) before/after; plus the projection relation: after the whole history in one reader run, each aircraft's row equals the row its own frames alone produce. Non-trivial: (a) every (format,address,payload) tuple, distinct by enumeration or hash; (b) steps executed while another aircraft's row already has non-default content, distinct by (frame, table-before) hash",
        assumptions: &["reference CRC-24 = bit-serial division by 0x1FFF409 (checked against published intact frames)", "the HashMap cannot hold two rows under one key, so 'two rows for one address' is checked as row.icao == key for every row"],
        workers: 16,
        also_nochk: false,
        fuzz_target: None,
        quick_budget_s: 900,
        thorough_budget_s: 3600,
        min_nontrivial_quick: 100_000,
        min_nontrivial_thorough: 1_000_000,
        run,
        replay,
    }
}

fn build(df: u32, addr: u32, fill: u128) -> Frame {
    match df {
        11 => bits::df11(addr, (fill & 7) as u32, 0),
        17 | 18 => bits::es(df, (fill & 7) as u32, addr, bits::me_raw(((fill >> 8) & 31) as u32, (fill >> 16) as u64)),
        _ => bits::ap_frame(df, addr, fill),
    }
}

fn nibbles(f: &Frame) -> Vec<u32> {
    let n = f.len / 4;
    (0..n).map(|i| ((f.bits >> (4 * (n - 1 - i))) & 0xF) as u32).collect()
}

/// attribution of a single frame through the public API and through the reader
fn check_single(df: u32, addr: u32, fill: u128, through_reader: bool) -> Result<(), String> {
    let f = build(df, addr, fill);
    let hex = f.hex();
    if f.address() != addr {
        return Err(format!("internal: builder/reference disagree for {}", hex));
    }
    let msg = nibbles(&f);
    let got = squitterator::get_icao(&msg, df);
    let want = if addr == 0 { None } else { Some(addr) };
    if got != want {
        return Err(format!("get_icao({}, DF{}) = {:?}, the frame encodes {:?}", hex, df, got.map(|a| format!("{:06X}", a)), want.map(|a| format!("{:06X}", a))));
    }
    if through_reader {
        let m = squitterator::get_message(&hex).ok_or_else(|| format!("get_message rejects the well-formed frame {}", hex))?;
        if m != msg {
            return Err(format!("get_message({}) returns different digits", hex));
        }
        if squitterator::get_downlink_format(&m) != Some(df) {
            return Err(format!("get_downlink_format({}) != {}", hex, df));
        }
        // reader on a table that already holds another aircraft
        let other = if addr == 0x4840D6 { 0x4840D7 } else { 0x4840D6 };
        let t = run::new_table();
        run::run_lines(&Opts::quiet(), &t, &[bits::df11(other, 5, 0).hex()]).map_err(|e| format!("{:?}", e))?;
        let before = run::snapshot(&t);
        run::run_lines(&Opts::quiet(), &t, &[hex.clone()]).map_err(|e| format!("reader failed on {}: {:?}", hex, e))?;
        let after = run::snapshot(&t);
        if addr == 0 {
            if before != after {
                return Err(format!("frame {} with address 0 changed the table: {:?}", hex, run::table_diff(&before, &after)));
            }
        } else {
            let keys: Vec<u32> = after.keys().cloned().collect();
            let mut want = vec![other, addr];
            want.sort();
            if keys != want {
                return Err(format!("after {} (DF{} address {:06X}) the table holds rows {:?}", hex, df, addr, keys.iter().map(|k| format!("{:06X}", k)).collect::<Vec<_>>()));
            }
            if after[&addr].icao != addr {
                return Err(format!("row {:06X} carries address field {:06X}", addr, after[&addr].icao));
            }
            if after[&other] != before[&other] {
                return Err(format!("frame {} for {:06X} changed row {:06X}: {:?}", hex, addr, other, before[&other].diff(&after[&other])));
            }
        }
    }
    Ok(())
}

fn check_history(c: &mut Ctx, opts: &Opts, steps: &[Step], counting: bool) -> Result<(), String> {
    let t = run::new_table();
    for (i, s) in steps.iter().enumerate() {
        let addr = gen::POOL[s.ac];
        if !bits::NINE.contains(&s.frame.df()) {
            continue; // no attribution rule is stated for other formats
        }
        run::shift_time(&t, s.dt);
        let before = run::snapshot(&t);
        run::run_lines(opts, &t, &[s.frame.hex()]).map_err(|e| format!("step {}: reader failed on {}: {:?}", i, s.frame.hex(), e))?;
        let after = run::snapshot(&t);
        for (k, row) in &after {
            if row.icao != *k {
                return Err(format!("step {}: row keyed {:06X} carries address {:06X}", i, k, row.icao));
            }
            if !crate::icao_table::reg_ok(*k, &row.reg) {
                return Err(format!("step {}: after frame {} the row of {:06X} shows country {:?}", i, s.frame.hex(), k, row.reg));
            }
            if *k != addr {
                match before.get(k) {
                    None => return Err(format!("step {}: frame {} for {:06X} created a row for {:06X}", i, s.frame.hex(), addr, k)),
                    Some(b) => {
                        if b != row {
                            return Err(format!("step {}: frame {} for {:06X} changed row {:06X}: {:?}", i, s.frame.hex(), addr, k, b.diff(row)));
                        }
                    }
                }
            }
        }
        for k in before.keys() {
            if !after.contains_key(k) {
                return Err(format!("step {}: frame {} for {:06X} removed row {:06X} (no expiry configured)", i, s.frame.hex(), addr, k));
            }
        }
        if !after.contains_key(&addr) {
            return Err(format!("step {}: well-formed frame {} did not create/keep the row of {:06X}", i, s.frame.hex(), addr));
        }
        if counting {
            c.eval(1);
            let others_nondefault = before.iter().any(|(k, r)| *k != addr && (r.altitude.is_some() || r.squawk.is_some() || r.ais.is_some() || r.cap0 != 0 || r.vrate.is_some() || r.cpr_lat != [0, 0]));
            if others_nondefault {
                c.nontrivial(&(s.frame, crate::ctx::hash_of(&format!("{:?}", run::no_clock(&before)))));
                c.class(&format!("step_df{}", s.frame.df()));
            } else {
                c.class("step_alone");
            }
        }
    }
    Ok(())
}

/// projection: after the whole interleaved history in ONE reader run, the row of each aircraft equals the row
/// produced by that aircraft's own frames alone (also one run) - nothing leaks between frames of different aircraft
fn check_projection(opts: &Opts, steps: &[Step]) -> Result<(), String> {
    let steps: Vec<&Step> = steps.iter().filter(|s| bits::NINE.contains(&s.frame.df())).collect();
    let all: Vec<String> = steps.iter().map(|s| s.frame.hex()).collect();
    let t = run::new_table();
    run::run_lines(opts, &t, &all).map_err(|e| format!("reader failed on the interleaved history: {:?}", e))?;
    let full = run::no_clock(&run::snapshot(&t));
    let mut acs: Vec<usize> = steps.iter().map(|s| s.ac).collect();
    acs.sort();
    acs.dedup();
    for ac in acs {
        let addr = gen::POOL[ac];
        let own: Vec<String> = steps.iter().filter(|s| s.ac == ac).map(|s| s.frame.hex()).collect();
        let t1 = run::new_table();
        run::run_lines(opts, &t1, &own).map_err(|e| format!("reader failed: {:?}", e))?;
        let alone = run::no_clock(&run::snapshot(&t1));
        if alone.len() != 1 || !alone.contains_key(&addr) {
            return Err(format!("frames of {:06X} alone produce rows {:?}", addr, alone.keys().map(|k| format!("{:06X}", k)).collect::<Vec<_>>()));
        }
        match full.get(&addr) {
            None => return Err(format!("aircraft {:06X} has no row after the interleaved history", addr)),
            Some(r) => {
                if *r != alone[&addr] {
                    return Err(format!("the row of {:06X} after the interleaved history differs from the row its own frames produce (frames of other aircraft leaked into it): {}", addr, alone[&addr].diff(r).join("; ")));
                }
            }
        }
    }
    Ok(())
}

fn volume_case() -> Result<(), String> {
    let addrs: Vec<u32> = (0..70_000u32).map(|i| 0x100000 + i * 7 + 1).collect();
    let lines: Vec<String> = addrs.iter().map(|a| bits::df11(*a, 5, 0).hex()).chain((0..24).map(|_| bits::df11(0x4840D6, 5, 0).hex())).collect();
    let t = run::new_table();
    let r = run::run_lines(&Opts::quiet(), &t, &lines);
    let snap = run::snapshot(&t);
    let missing = addrs.iter().filter(|a| !snap.contains_key(a)).count();
    if r.is_err() || missing > 0 || snap.len() != addrs.len() + 1 {
        return Err(format!("70 000 aircraft heard once each within one run (no expiry configured): {} of them have no row, the table holds {} rows", missing, snap.len()));
    }
    Ok(())
}

fn lock_case() -> Result<(), String> {
    let t = run::new_table();
    let path = run::tmp_dir().join("c03-lock.txt");
    let _ = std::fs::write(&path, format!("{}\n{}\n", bits::df11(0x4840D6, 5, 0).hex(), bits::df4(0xA12345, bits::ac13_q1(1000), 0).hex()));
    let args = std::sync::Arc::new(Opts::quiet().args(&path.to_string_lossy()));
    let guard = t.read().unwrap();
    let h = squitterator::spawn_reader_thread(args, squitterator::Planes { aircrafts: t.clone() });
    std::thread::sleep(std::time::Duration::from_millis(150));
    drop(guard);
    let _ = h.join();
    let snap = run::snapshot(&t);
    if !snap.contains_key(&0x4840D6) || !snap.contains_key(&0xA12345) {
        return Err(format!("frames that arrived while another thread held a read guard on the table were lost: rows {:?}", snap.keys().map(|k| format!("{:06X}", k)).collect::<Vec<_>>()));
    }
    Ok(())
}

fn run(c: &mut Ctx) {
    // (a1) address sweep through get_icao, fixed generated payload per format
    let stride_bits = c.tier.pick(2u32, 0u32); // quick: every 4th address (2^22), thorough: all 2^24
    for (fi, &df) in NINE.iter().enumerate() {
        let fill: u128 = 0x9E37_79B9_7F4A_7C15_F39C_C060_5CED_C834u128.wrapping_mul((c.seed as u128) * 2 + 1 + fi as u128);
        let total: u64 = 1 << (24 - stride_bits);
        let mut n = 0u64;
        // the data CRC is constant for a fixed payload: build one frame, then overlay addresses
        let proto = build(df, 1, fill);
        for i in 0..total {
            if !c.mine(i) {
                continue;
            }
            let addr = ((i << stride_bits) | (c.seed & ((1 << stride_bits) - 1))) as u32 & 0xFF_FFFF;
            let f = match df {
                11 | 17 | 18 => {
                    let mut g = proto;
                    g.set(9, 32, addr as u64);
                    g.seal(0)
                }
                _ => {
                    let mut g = proto;
                    let l = g.len;
                    g.set(l - 23, l, 0);
                    g.seal(addr)
                }
            };
            let got = squitterator::get_icao(&nibbles(&f), df);
            let want = if addr == 0 { None } else { Some(addr) };
            if got != want {
                if !c.failed() {
                    c.fail(
                        format!("get_icao({}, DF{}) = {:?}, the frame encodes {:06X}", f.hex(), df, got.map(|a| format!("{:06X}", a)), addr),
                        "c03:address",
                        json!({"kind":"single","df":df,"addr":addr,"fill":fill.to_string(),"reader":false}),
                    );
                }
            }
            n += 1;
        }
        c.eval(n);
        c.nontrivial_enumerated(n);
        c.class_n(&format!("sweep_df{}", df), n);
    }
    if stride_bits == 0 {
        c.exhaustive("all 2^24 addresses x nine formats through get_icao (one generated payload per format)");
    }

    // (a2) generated payload x address through public API + reader
    let strat = (proptest::sample::select(NINE.to_vec()), prop_oneof![1 => Just(0u32), 12 => gen::addr()], gen::fill128());
    let cases = c.tier.pick(40_000, 400_000);
    let r = c.proptest(cases, strat, |c, &(df, addr, fill), counting| {
        check_single(df, addr, fill, true)?;
        if counting {
            c.eval(1);
            c.nontrivial(&(df, addr, fill));
            c.class(if addr == 0 { "single_zero_address" } else { "single_reader" });
            if c.want_sample() {
                c.sample(json!({"frame": build(df, addr, fill).hex(), "df": df, "address": format!("{:06X}", addr)}));
            }
        }
        Ok(())
    });
    if let Some(((df, addr, fill), m)) = r {
        c.fail(m, "c03:single", json!({"kind":"single","df":df,"addr":addr,"fill":fill.to_string(),"reader":true}));
    }

    // (a3) single-bit payload basis: every payload bit set alone, three addresses
    let mut n = 0;
    for &df in NINE.iter() {
        let len = if df < 16 { 56 } else { 112 };
        for b in 6..=(len - 24) {
            for addr in [0x000001u32, 0xABCDEF, 0xFFFFFF] {
                let fill = 1u128 << (len - b);
                if matches!(df, 11 | 17 | 18) {
                    continue; // builder derives payload from fill differently; covered by (a2)
                }
                if let Err(m) = check_single(df, addr, fill, false) {
                    if !c.failed() {
                        c.fail(m, "c03:basis", json!({"kind":"single","df":df,"addr":addr,"fill":fill.to_string(),"reader":false}));
                    }
                }
                n += 1;
            }
        }
    }
    if c.worker == 0 {
        c.eval(n);
        c.class_n("payload_bit_basis", n);
    }

    // (a4) adjacency: a frame directly followed by the same payload for an address one bit away (get_icao called
    // back to back, and both lines in one reader run): attribution must not depend on the previous frame
    {
        let seeds = c.draw(c.tier.pick(60usize, 600usize), (proptest::sample::select(NINE.to_vec()), gen::addr(), gen::fill128()));
        for (i, (df, addr, fill)) in seeds.into_iter().enumerate() {
            if !c.mine(i as u64) {
                continue;
            }
            let mut lines = Vec::new();
            let mut want = std::collections::BTreeSet::new();
            for b in 0..24u32 {
                for a in [addr, addr ^ (1 << b)] {
                    let f = build(df, a, fill);
                    let got = squitterator::get_icao(&nibbles(&f), df);
                    let expect = if a == 0 { None } else { Some(a) };
                    if got != expect && !c.failed() {
                        c.fail(format!("get_icao({}, DF{}) = {:?} directly after the frame for {:06X}; the frame encodes {:06X}", f.hex(), df, got.map(|x| format!("{:06X}", x)), addr, a), "c03:address", json!({"kind":"pair","df":df,"addr":addr,"bit":b,"fill":fill.to_string()}));
                    }
                    lines.push(f.hex());
                    if a != 0 {
                        want.insert(a);
                    }
                }
            }
            let t = run::new_table();
            let r = run::run_lines(&Opts::quiet(), &t, &lines);
            let keys: std::collections::BTreeSet<u32> = run::snapshot(&t).keys().cloned().collect();
            c.eval(48);
            c.class("one_bit_neighbour_addresses");
            c.nontrivial(&("pair", df, addr, fill));
            if (r.is_err() || keys != want) && !c.failed() {
                c.fail(format!("DF{} frames for {:06X} and its 24 one-bit neighbours in one run produce rows {:?} instead of one row per address", df, addr, keys.iter().map(|k| format!("{:06X}", k)).collect::<Vec<_>>()), "c03:address", json!({"kind":"pair","df":df,"addr":addr,"bit":null,"fill":fill.to_string()}));
            }
        }
    }
    // (a5) volume: 70 000 distinct aircraft in one run - every one keeps its own row (worker 0)
    if c.worker == 0 {
        c.eval(1);
        c.class("volume_70000_aircraft");
        c.nontrivial(&"volume");
        if let Err(m) = volume_case() {
            if !c.failed() {
                c.fail(m, "c03:volume", json!({"kind":"volume"}));
            }
        }
    }
    // (a6) a frame must be applied even if another thread holds a read guard on the public table for a while
    if c.worker == 1 % c.nworkers {
        c.eval(1);
        c.class("table_read_guard_held_elsewhere");
        if let Err(m) = lock_case() {
            if !c.failed() {
                c.fail(m, "c03:lock", json!({"kind":"lock"}));
            }
        }
    }
    // (a7) frames whose address equals the CRC of their own payload (the AP field is then all zeros)
    {
        let seeds = c.draw(c.tier.pick(400usize, 4000usize), (proptest::sample::select(vec![0u32, 4, 5, 16, 20, 21]), gen::fill128()));
        for (i, (df, fill)) in seeds.into_iter().enumerate() {
            if !c.mine(i as u64) {
                continue;
            }
            let probe = build(df, 1, fill);
            let addr = probe.data_crc();
            c.eval(1);
            c.class("address_equals_payload_crc");
            if let Err(m) = check_single(df, addr, fill, true) {
                if !c.failed() {
                    c.fail(m, "c03:single", json!({"kind":"single","df":df,"addr":addr,"fill":fill.to_string(),"reader":true}));
                }
            }
        }
    }
    // (b) interleaved histories
    let cases = c.tier.pick(6000, 100_000);
    let strat = (gen::opts_ur(), (2usize..=4).prop_flat_map(|n| alphabet::history(n, 5..40, 3)));
    let r = c.proptest(cases, strat, |c, (opts, steps), counting| {
        let r = check_history(c, opts, steps, counting).and_then(|_| check_projection(opts, steps));
        if counting && r.is_ok() && c.want_sample() && steps.len() > 8 {
            c.sample(json!({"history": steps.iter().map(|s| format!("{:06X}:{}", gen::POOL[s.ac], s.frame.hex())).collect::<Vec<_>>(), "opts": opts.label()}));
        }
        r
    });
    if let Some(((opts, steps), m)) = r {
        c.fail(m, "c03:history", json!({"kind":"history","opts":opts,"steps":steps}));
    }
}

fn replay(c: &mut Ctx, case: &Value) {
    c.eval(1);
    match case.get("kind").and_then(|k| k.as_str()) {
        Some("volume") => {
            if let Err(m) = volume_case() {
                c.fail(m, "c03:volume", case.clone());
            }
        }
        Some("lock") => {
            if let Err(m) = lock_case() {
                c.fail(m, "c03:lock", case.clone());
            }
        }
        Some("pair") => {
            let df = case["df"].as_u64().unwrap_or(0) as u32;
            let addr = case["addr"].as_u64().unwrap_or(0) as u32;
            let fill: u128 = case["fill"].as_str().and_then(|s| s.parse().ok()).unwrap_or(0);
            let mut lines = Vec::new();
            let mut want = std::collections::BTreeSet::new();
            for b in 0..24u32 {
                for a in [addr, addr ^ (1 << b)] {
                    let f = build(df, a, fill);
                    let got = squitterator::get_icao(&nibbles(&f), df);
                    if got != (if a == 0 { None } else { Some(a) }) {
                        c.fail(format!("get_icao({}, DF{}) = {:?}; the frame encodes {:06X}", f.hex(), df, got, a), "c03:address", case.clone());
                        return;
                    }
                    lines.push(f.hex());
                    if a != 0 { want.insert(a); }
                }
            }
            let t = run::new_table();
            let _ = run::run_lines(&Opts::quiet(), &t, &lines);
            let keys: std::collections::BTreeSet<u32> = run::snapshot(&t).keys().cloned().collect();
            if keys != want {
                c.fail(format!("rows {:?} instead of one row per address", keys), "c03:address", case.clone());
            }
        }
        Some("single") => {
            let df = case["df"].as_u64().unwrap_or(0) as u32;
            let addr = case["addr"].as_u64().unwrap_or(0) as u32;
            let fill: u128 = case["fill"].as_str().and_then(|s| s.parse().ok()).unwrap_or(0);
            let reader = case["reader"].as_bool().unwrap_or(true);
            if let Err(m) = check_single(df, addr, fill, reader) {
                c.fail(m, "c03:single", case.clone());
            }
        }
        Some("history") => {
            let opts: Opts = serde_json::from_value(case["opts"].clone()).unwrap_or_default();
            let steps: Vec<Step> = serde_json::from_value(case["steps"].clone()).unwrap_or_default();
            if let Err(m) = check_history(c, &opts, &steps, false).and_then(|_| check_projection(&opts, &steps)) {
                c.fail(m, "c03:history", case.clone());
            }
        }
        _ => c.inconclusive("unknown replay kind"),
    }
}
