//! C15 — every refresh lists each aircraft once, ordered by the requested key.

use super::PropSpec;
use crate::alphabet::airpos_me;
use crate::bits;
use crate::cli;
use crate::ctx::Ctx;
use crate::gen;
use crate::render;
use crate::rows::{self, RowSpec};
use crate::run::{self, Opts};
use proptest::prelude::*;
use serde_json::{json, Value};
use std::collections::BTreeMap;

pub fn spec() -> PropSpec {
    PropSpec {
        id: "C15",
        level: "exploration",
        rule: "(a) generated table contents (0..16 rows injected, one table in thirteen with 60..300 rows, key values drawn from small pools so that ties, blanks, negatives and sub-unit differences such as 52.3 vs 52.7 occur) x -o given as 0..6 values (the last one sometimes repeating an earlier one) over the key letters s a A v V N S W E d D c plus noise letters, printed by Planes::print: the printed addresses are exactly the table's keys, each once, and the column of the last recognised key letter is monotone over the rows where it is not blank (ascending for s and a, descending for A, either direction for the others; ties in any order); without a recognised letter the rows are in ascending address order. (b) generated frame streams for several aircraft through the real reader with a refresh per frame: every refresh lists every aircraft heard so far exactly once and the key column read from the printed cells (s, a, A, v, V) is monotone. Non-trivial = >= 3 rows with >= 2 distinct non-blank key values and >= 1 tie or blank; distinct by hash",
        assumptions: &["the letter C (category descending) is implemented but not named by the property and is not generated", "blank keys may appear anywhere in the order"],
        workers: 16,
        also_nochk: false,
        fuzz_target: None,
        quick_budget_s: 900,
        thorough_budget_s: 3600,
        min_nontrivial_quick: 10_000,
        min_nontrivial_thorough: 200_000,
        run,
        replay,
    }
}

const KEYS: &str = "saAvVNSWEdDc";

fn pooled_rows() -> BoxedStrategy<Vec<RowSpec>> {
    let sq = prop_oneof![Just(None), Just(Some(1200u32)), Just(Some(7000u32)), Just(Some(7700u32)), Just(Some(21u32)), Just(Some(0u32))];
    let alt = prop_oneof![Just(None), Just(Some(0u32)), Just(Some(38000u32)), Just(Some(38025u32)), Just(Some(1000u32)), Just(Some(99975u32))];
    let vr = prop_oneof![Just(None), Just(Some(0i32)), Just(Some(-64i32)), Just(Some(64i32)), Just(Some(-3200i32)), Just(Some(2048i32))];
    let lat = prop_oneof![Just(0.0f64), Just(52.3f64), Just(52.7f64), Just(-52.3f64), Just(-0.4f64), Just(0.4f64), Just(51.99999f64), Just(52.00001f64), Just(52.300004f64), Just(52.300006f64)];
    let lon = prop_oneof![Just(0.0f64), Just(-8.3f64), Just(-8.7f64), Just(8.3f64), Just(-0.4f64), Just(0.4f64), Just(179.9f64), Just(-179.9f64)];
    let dist = prop_oneof![Just(None), Just(Some(0.2f64)), Just(Some(0.7f64)), Just(Some(10.4f64)), Just(Some(10.6f64)), Just(Some(12.34f64)), Just(Some(12.36f64)), Just(Some(12.31f64)), Just(Some(250.0f64))];
    let cat = prop_oneof![1 => Just((0u32, 0u32)), 1 => Just((4u32, 3u32)), 1 => Just((4u32, 5u32)), 4 => (1u32..=4, 0u32..8)];
    let row = (rows::row_strategy(prop_oneof![3 => 1u32..400, 1 => 1u32..0xFFFFFF]), sq, alt, vr, lat, lon, dist, cat).prop_map(|(mut r, sq, alt, vr, lat, lon, dist, cat)| {
        r.squawk = sq;
        r.altitude = alt;
        r.vrate = vr;
        r.lat = lat;
        r.lon = lon;
        r.dist = dist;
        r.category = cat;
        r
    });
    prop_oneof![12 => proptest::collection::vec(row.clone(), 0..16), 1 => proptest::collection::vec(row, 60..300)]
        .prop_map(|mut v| {
            v.sort_by_key(|r| r.icao);
            v.dedup_by_key(|r| r.icao);
            v
        })
        .boxed()
}

fn order_strategy() -> BoxedStrategy<Vec<String>> {
    let s = prop_oneof![4 => "[saAvVNSWEdDc]{1,3}", 1 => "[saAvVNSWEdDcxyz1]{1,4}", 1 => "[xyz1B]{0,2}"];
    // up to five -o values; now and then the last value repeats an earlier one
    (proptest::collection::vec(s, 0..6), prop::bool::weighted(0.2), any::<prop::sample::Index>())
        .prop_map(|(mut v, repeat, ix)| {
            if repeat && v.len() >= 2 {
                let k = ix.index(v.len() - 1);
                let x = v[k].clone();
                v.push(x);
            }
            v
        })
        .boxed()
}

fn last_key(o: &[String]) -> Option<char> {
    o.concat().chars().filter(|c| KEYS.contains(*c)).last()
}

/// key value of a row for a key letter; None = blank
fn key_of(r: &RowSpec, k: char) -> Option<f64> {
    let shown = r.lat != 0.0 && r.lon != 0.0;
    match k {
        's' => r.squawk.map(|v| v as f64),
        'a' | 'A' => r.altitude.map(|v| v as f64),
        'v' | 'V' => r.vrate.map(|v| v as f64),
        'N' | 'S' => if shown { Some(r.lat) } else { None },
        'W' | 'E' => if shown { Some(r.lon) } else { None },
        'd' | 'D' => r.dist,
        'c' => Some((r.category.0 * 8 + r.category.1) as f64),
        _ => None,
    }
}

fn monotone(vals: &[f64], k: char) -> bool {
    let asc = vals.windows(2).all(|w| w[0] <= w[1]);
    let desc = vals.windows(2).all(|w| w[0] >= w[1]);
    match k {
        's' | 'a' => asc,
        'A' => desc,
        _ => asc || desc,
    }
}

pub fn check_table(order: &[String], rows_in: &[RowSpec]) -> Result<(), String> {
    let t = run::new_table();
    rows::inject(&t, rows_in);
    let o = Opts { i: vec!["".into()], o: order.to_vec(), ..Opts::default() };
    let printed = render::print_table(&t, &o);
    let ids: Vec<u32> = printed.iter().filter_map(|l| u32::from_str_radix(&l.chars().take(6).collect::<String>(), 16).ok()).collect();
    if ids.len() != printed.len() {
        return Err(format!("a printed line does not start with an address: {:?}", printed));
    }
    let mut sorted = ids.clone();
    sorted.sort();
    let mut keys: Vec<u32> = rows_in.iter().map(|r| r.icao).collect();
    keys.sort();
    if sorted != keys {
        return Err(format!("-o {:?}: printed addresses {:?} are not exactly the table's aircraft {:?} (each once)", order, ids.iter().map(|a| format!("{:06X}", a)).collect::<Vec<_>>(), keys.iter().map(|a| format!("{:06X}", a)).collect::<Vec<_>>()));
    }
    let by: BTreeMap<u32, &RowSpec> = rows_in.iter().map(|r| (r.icao, r)).collect();
    match last_key(order) {
        None => {
            if ids != sorted {
                return Err(format!("-o {:?} has no recognised key letter but the rows are not in ascending address order: {:?}", order, ids.iter().map(|a| format!("{:06X}", a)).collect::<Vec<_>>()));
            }
        }
        Some(k) => {
            let vals: Vec<f64> = ids.iter().filter_map(|a| key_of(by[a], k)).collect();
            if !monotone(&vals, k) {
                return Err(format!("-o {:?} (last key '{}'): the key column is not monotone down the table: {:?}", order, k, vals));
            }
        }
    }
    Ok(())
}

/// (b) refreshes printed by the reader
fn check_stream(order: &[String], lines: &[String], via_cli: bool) -> Result<u64, String> {
    // the command line applies its default "-o sA" when no -o is given at all
    let default_order = vec!["sA".to_string()];
    let order: &[String] = if via_cli && order.is_empty() { &default_order } else { order };
    let o = Opts { i: vec!["x".into()], o: order.to_vec(), upd: -1, ..Opts::default() };
    let out = if via_cli {
        let p = run::tmp_dir().join(format!("c15-{}.txt", std::process::id()));
        std::fs::write(&p, lines.join("\n") + "\n").map_err(|e| e.to_string())?;
        let r = cli::run_file(true, &o, &p.to_string_lossy(), &[], true, std::time::Duration::from_secs(60)).map_err(|e| e.to_string())?;
        if r.timed_out { return Err("TIMEOUT".into()); }
        if r.status != Some(0) { return Err(format!("CLI ended with {:?}/{:?}", r.status, r.signal)); }
        String::from_utf8_lossy(&r.stdout).to_string()
    } else {
        let t = run::new_table();
        let (r, out) = run::run_bytes_captured(&o, &t, (lines.join("\n") + "\n").as_bytes());
        r.map_err(|e| format!("reader failed: {:?}", e))?;
        out
    };
    let (_, refreshes) = cli::parse_refreshes(&out);
    if refreshes.len() != lines.len() {
        return Err(format!("{} frames fed, {} refreshes printed", lines.len(), refreshes.len()));
    }
    let k = last_key(order);
    let mut seen = std::collections::BTreeSet::new();
    for (n, (r, l)) in refreshes.iter().zip(lines.iter()).enumerate() {
        let f = bits::Frame::from_hex(l).ok_or("internal")?;
        seen.insert(f.address());
        let ids: Vec<u32> = r.rows.iter().filter_map(|x| u32::from_str_radix(&x.chars().take(6).collect::<String>(), 16).ok()).collect();
        let mut sorted = ids.clone();
        sorted.sort();
        if sorted != seen.iter().cloned().collect::<Vec<_>>() {
            return Err(format!("refresh {}: rows {:?} but aircraft heard so far are {:?}", n, ids, seen));
        }
        let col = match k {
            Some('s') => Some("SQWK"),
            Some('a') | Some('A') => Some("ALT B"),
            Some('v') | Some('V') => Some("VRATE"),
            Some('N') | Some('S') => Some("LATITUDE"),
            Some('W') | Some('E') => Some("LONGITUDE"),
            _ => None,
        };
        match (k, col) {
            (None, _) => {
                if ids != sorted {
                    return Err(format!("refresh {}: no recognised key in -o {:?} but rows are not in address order: {:?}", n, order, ids));
                }
            }
            (Some(kc), Some(cname)) => {
                // a value wider than its column (e.g. a 4-digit distance) shifts the row: cells cannot be cut by position
                if r.rows.iter().any(|x| x.chars().count() != r.header.chars().count()) {
                    continue;
                }
                let mut vals = Vec::new();
                for row in &r.rows {
                    if let Some(cells) = render::cells("", row) {
                        if let Ok(v) = cells[cname].trim().parse::<f64>() {
                            vals.push(v);
                        }
                    }
                }
                if !monotone(&vals, kc) {
                    return Err(format!("refresh {} with -o {:?}: column {} reads {:?} down the table, not monotone", n, order, cname, vals));
                }
            }
            _ => {}
        }
    }
    Ok(refreshes.len() as u64)
}

fn stream_strategy() -> BoxedStrategy<Vec<String>> {
    // DF5 / DF4 / TC19 / position pairs for up to 6 aircraft with nearby values
    let ac = 0usize..6;
    let f = ac.prop_flat_map(|i| {
        let a = gen::POOL[i];
        prop_oneof![
            (0u32..8, 0u32..8).prop_map(move |(x, y)| bits::df5(a, bits::id13_from_squawk(x, y, 0, 0, 0), 0)),
            (100u32..140).prop_map(move |n| bits::df4(a, bits::ac13_q1(n * 10), 0)),
            gen::vel_valid().prop_map(move |v| bits::es(17, 5, a, bits::me_velocity(&v))),
            (any::<bool>(), 0.0f64..0.9, 0.0f64..0.9).prop_map(move |(odd, x, y)| bits::es(17, 5, a, airpos_me(11, 0, bits::ac12_q1(1000), odd, 52.0 + x, -8.0 - y))),
            Just(bits::df11(a, 5, 0)),
        ]
    });
    proptest::collection::vec(f.prop_map(|f| f.hex()), 2..40).boxed()
}

fn run(c: &mut Ctx) {
    let cases = c.tier.pick(40_000, 600_000);
    let r = c.proptest(cases, (order_strategy(), pooled_rows()), |c, (order, rows_in), counting| {
        check_table(order, rows_in)?;
        if counting {
            c.eval(1);
            let nt = match last_key(order) {
                None => rows_in.len() >= 3,
                Some(k) => {
                    let vals: Vec<Option<f64>> = rows_in.iter().map(|r| key_of(r, k)).collect();
                    let nb: Vec<f64> = vals.iter().flatten().cloned().collect();
                    let mut d = nb.clone();
                    d.sort_by(|a, b| a.partial_cmp(b).unwrap());
                    d.dedup();
                    rows_in.len() >= 3 && d.len() >= 2 && (d.len() < nb.len() || nb.len() < vals.len())
                }
            };
            if nt {
                c.nontrivial(&(format!("{:?}", rows_in.iter().map(|r| (r.icao, r.squawk, r.altitude, r.vrate, r.lat.to_bits(), r.lon.to_bits(), r.dist.map(f64::to_bits), r.category)).collect::<Vec<_>>()), order.clone()));
                c.class(&format!("key_{}", last_key(order).map(|k| k.to_string()).unwrap_or_else(|| "none".into())));
            } else {
                c.class("trivial");
            }
            if c.want_sample() && nt && rows_in.len() < 6 {
                c.sample(json!({"order_by": order, "rows": rows_in.iter().map(|r| json!({"icao": format!("{:06X}", r.icao), "squawk": r.squawk, "altitude": r.altitude, "vrate": r.vrate, "lat": r.lat, "lon": r.lon, "dist": r.dist, "category": r.category})).collect::<Vec<_>>()}));
            }
        }
        Ok(())
    });
    if let Some(((order, rows_in), m)) = r {
        c.fail(m, "c15:order", json!({"kind":"table","order":order,"rows":rows_in}));
        return;
    }
    let cases = c.tier.pick(2_000, 40_000);
    let r = c.proptest(cases, (order_strategy(), stream_strategy(), prop::bool::weighted(0.05)), |c, (order, lines, via_cli), counting| match check_stream(order, lines, *via_cli) {
        Ok(n) => {
            if counting {
                c.eval(n);
                c.class(if *via_cli { "refreshes_cli" } else { "refreshes_reader" });
            }
            Ok(())
        }
        Err(e) if e == "TIMEOUT" => {
            c.inconclusive("CLI timeout");
            Ok(())
        }
        Err(e) => Err(e),
    });
    if let Some(((order, lines, via_cli), m)) = r {
        c.fail(m, "c15:refresh", json!({"kind":"stream","order":order,"lines":lines,"cli":via_cli}));
    }
}

fn replay(c: &mut Ctx, case: &Value) {
    c.eval(1);
    let order: Vec<String> = serde_json::from_value(case["order"].clone()).unwrap_or_default();
    match case["kind"].as_str() {
        Some("stream") => {
            let lines: Vec<String> = serde_json::from_value(case["lines"].clone()).unwrap_or_default();
            if let Err(m) = check_stream(&order, &lines, case["cli"].as_bool().unwrap_or(false)) {
                if m != "TIMEOUT" {
                    c.fail(m, "c15:refresh", case.clone());
                }
            }
        }
        _ => {
            let Ok(rows_in) = serde_json::from_value::<Vec<RowSpec>>(case["rows"].clone()) else { return c.inconclusive("bad replay") };
            if let Err(m) = check_table(&order, &rows_in) {
                c.fail(m, "c15:order", case.clone());
            }
        }
    }
}
