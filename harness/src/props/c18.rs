//! C18 — TCP feed interruptions never stop decoding or lose the table.

use super::PropSpec;
use crate::bits;
use crate::cli;
use crate::ctx::{Ctx, Tier};
use crate::run;
use proptest::prelude::*;
use serde::{Deserialize, Serialize};
use serde_json::{json, Value};
use std::io::Write;
use std::net::{TcpListener, TcpStream};
use std::os::unix::io::AsRawFd;
use std::process::{Child, Command, Stdio};
use std::time::{Duration, Instant};

pub fn spec() -> PropSpec {
    PropSpec {
        id: "C18",
        level: "fault_enumeration",
        rule: "fault sequences over {refuse (port closed for 1.5 s), accept+close, accept+frames+close, accept+frames+partial line+RST, accept+junk bytes incl. invalid UTF-8+close} followed by a healthy connection that sends new aircraft and stays open; the harness owns the loopback peer and runs the built CLI (release profile; three sequences, among them 3000 immediate closes, also with the dev profile's overflow checks) with -t. Quick: every single fault, every ordered pair, and generated sequences of length 3-4; thorough: every sequence of length <= 3 plus generated ones of length 4. Oracle after every step and at the end: the process is alive; the healthy connection is accepted; the refresh printed after it lists every aircraft learned over cleanly delivered earlier connections and the new ones; no row for the truncated line; after a refusal the next accepted connection arrives >= 4.5 s after the refused attempt, and after four refusals in a row not later than 28 s after the first (pauses must not grow). Non-trivial = sequence with >= 1 mid-line reset or refusal and >= 1 aircraft learned before it; distinct by hash of the sequence",
        assumptions: &["the lower bound of the retry pause is asserted everywhere; the upper bound only after four refused attempts in a row (the fifth must arrive within 28 s where 20 s is nominal: 8 s of slack for load)", "a reconnect that does not arrive within 60 s is reported as inconclusive (exit 2), not as a violation", "frames sent on a connection that is then reset may or may not have been read"],
        workers: 8,
        also_nochk: false,
        fuzz_target: None,
        quick_budget_s: 600,
        thorough_budget_s: 3600,
        min_nontrivial_quick: 12,
        min_nontrivial_thorough: 150,
        run,
        replay,
    }
}

#[derive(Clone, Copy, Debug, Serialize, Deserialize, PartialEq, Eq, Hash)]
pub enum Fault {
    Refuse,
    AcceptClose,
    FramesClose,
    PartialReset(u8), // number of digits of the truncated frame (1..27)
    JunkClose,
    /// junk lines followed by well-formed frames on the same connection (used by C13's TCP sub-check)
    JunkThenFrames,
    /// accept, send a truncated frame (n digits, no line feed) and close normally (FIN): the partial last line is a
    /// malformed line; with n = 28 the unterminated line is a complete frame and must be decoded
    PartialClose(u8),
    /// the port stays closed for 6.5 s: two connection attempts in a row are refused
    LongRefuse,
    /// the port stays closed for 16.5 s: four attempts in a row are refused (each must still be followed by a pause)
    VeryLongRefuse,
    /// 3000 connections accepted and closed at once (the decoder reconnects immediately each time)
    ManyCloses,
    /// not a fault: the decoder is started with `-t localhost:<port>` instead of the numeric address
    UseHostName,
    /// not a fault: the decoder binary of the dev profile (arithmetic-overflow checks on) is used instead of the release one
    DevBuild,
    /// accept, deliver a frame, keep the connection open for 5.5 s, then close (a feed that ran for a while)
    HoldFrames,
}

fn all_faults() -> Vec<Fault> {
    vec![Fault::Refuse, Fault::AcceptClose, Fault::FramesClose, Fault::PartialReset(14), Fault::JunkClose]
}

fn fault_strategy() -> impl Strategy<Value = Fault> {
    prop_oneof![
        Just(Fault::Refuse),
        Just(Fault::AcceptClose),
        Just(Fault::FramesClose),
        prop_oneof![Just(14u8), Just(13u8), Just(27u8), Just(26u8), 1u8..28].prop_map(Fault::PartialReset),
        Just(Fault::JunkClose),
    ]
}

struct Peer {
    port: u16,
    listener: Option<TcpListener>,
}
impl Peer {
    fn open(&mut self) -> std::io::Result<()> {
        if self.listener.is_none() {
            let deadline = Instant::now() + Duration::from_secs(5);
            loop {
                match TcpListener::bind(("127.0.0.1", self.port)) {
                    Ok(l) => {
                        l.set_nonblocking(true)?;
                        self.listener = Some(l);
                        break;
                    }
                    Err(e) => {
                        if Instant::now() > deadline {
                            return Err(e);
                        }
                        std::thread::sleep(Duration::from_millis(20));
                    }
                }
            }
        }
        Ok(())
    }
    fn close(&mut self) {
        self.listener = None;
    }
    /// accept one connection within the deadline
    fn accept(&mut self, within: Duration) -> Option<TcpStream> {
        let l = self.listener.as_ref()?;
        let end = Instant::now() + within;
        loop {
            match l.accept() {
                Ok((s, _)) => {
                    let _ = s.set_nonblocking(false);
                    let _ = s.set_nodelay(true);
                    return Some(s);
                }
                Err(_) => {
                    if Instant::now() > end {
                        return None;
                    }
                    std::thread::sleep(Duration::from_millis(5));
                }
            }
        }
    }
}

fn reset(s: TcpStream) {
    let lg = libc::linger { l_onoff: 1, l_linger: 0 };
    unsafe {
        libc::setsockopt(s.as_raw_fd(), libc::SOL_SOCKET, libc::SO_LINGER, &lg as *const _ as *const libc::c_void, std::mem::size_of::<libc::linger>() as u32);
    }
    drop(s);
}

fn new_aircraft(k: u32) -> (u32, Vec<String>) {
    let a = 0x3C0000 + 0x101 * (k + 1);
    // one line only: if the first line of a connection is lost or merged with a left-over fragment, the aircraft is missing
    (a, vec![bits::df4(a, bits::ac13_q1(1000 + k), 0).hex()])
}

fn printed_ids(out: &str) -> Vec<String> {
    let (_, rs) = cli::parse_refreshes(out);
    rs.last().map(|r| r.rows.iter().map(|x| x.chars().take(6).collect()).collect()).unwrap_or_default()
}

pub enum Outcome {
    Ok { learned_before: usize, disruptive: usize },
    Inconclusive(String),
}

pub fn check(seq: &[Fault], case_id: u64) -> Result<Outcome, String> {
    // A fixed port outside the kernel's ephemeral range (32768..), unique per case: a port that is closed during a
    // 'refuse' step must not be handed out to a concurrently running case (its decoder would then talk to our peer).
    let mut bound = None;
    for attempt in 0..8u64 {
        let port = 20_000 + ((case_id % 1500) + attempt * 1500) as u16 % 12_000;
        if let Ok(l) = TcpListener::bind(("127.0.0.1", port)) {
            bound = Some((l, port));
            break;
        }
    }
    let Some((l, port)) = bound else {
        return Ok(Outcome::Inconclusive("harness: no free loopback port".into()));
    };
    l.set_nonblocking(true).map_err(|e| e.to_string())?;
    let mut peer = Peer { port, listener: Some(l) };
    // the host-name case is only meaningful where 'localhost' resolves to the loopback address the peer listens on
    let resolves = {
        use std::net::ToSocketAddrs;
        ("localhost", 1u16).to_socket_addrs().map(|mut it| it.any(|a| a.ip() == std::net::IpAddr::V4(std::net::Ipv4Addr::LOCALHOST))).unwrap_or(false)
    };
    let use_host = seq.contains(&Fault::UseHostName) && resolves;
    let dev_build = seq.contains(&Fault::DevBuild);
    let seq: Vec<Fault> = seq.iter().cloned().filter(|f| *f != Fault::UseHostName && *f != Fault::DevBuild).collect();
    let seq = &seq[..];
    let starts_refused = matches!(seq.first(), Some(Fault::Refuse) | Some(Fault::LongRefuse) | Some(Fault::VeryLongRefuse));
    if starts_refused {
        peer.close();
    }
    let outpath = run::tmp_dir().join(format!("c18-{}-{}.out", std::process::id(), case_id));
    let outfile = std::fs::File::create(&outpath).map_err(|e| e.to_string())?;
    let dlog = run::tmp_dir().join(format!("c18-{}-{}.dl", std::process::id(), case_id));
    let _ = std::fs::remove_file(&dlog);
    let mut extra: Vec<String> = Vec::new();
    if case_id % 2 == 1 {
        // downlink log: re-opened by the program for every connection
        extra.push("-D".into());
        extra.push(dlog.to_string_lossy().to_string());
    }
    let mut child: Child = Command::new(cli::cli_path(!dev_build))
        .args(["-t", &format!("{}:{}", if use_host { "localhost" } else { "127.0.0.1" }, port), "--update=-1", "-i", "x", "-d", "100000"])
        .args(&extra)
        .stdin(Stdio::null())
        .stdout(Stdio::from(outfile))
        .stderr(Stdio::null())
        .spawn()
        .map_err(|e| format!("cannot start the CLI: {}", e))?;
    let result = drive(seq, &mut peer, &mut child, &outpath, starts_refused, use_host);
    let _ = child.kill();
    let _ = child.wait();
    let _ = std::fs::remove_file(&outpath);
    let _ = std::fs::remove_file(&dlog);
    result
}

fn alive(child: &mut Child, when: &str) -> Result<(), String> {
    match child.try_wait() {
        Ok(None) => Ok(()),
        Ok(Some(st)) => Err(format!("the decoder process terminated ({:?}) {}", st, when)),
        Err(e) => Err(e.to_string()),
    }
}

fn drive(seq: &[Fault], peer: &mut Peer, child: &mut Child, outpath: &std::path::Path, starts_refused: bool, use_host: bool) -> Result<Outcome, String> {
    let mut learned: Vec<u32> = Vec::new();
    let mut must_not: Vec<u32> = Vec::new();
    let mut k = 0u32;
    let mut learned_before_disruption = 0usize;
    let mut disruptive = 0usize;
    // `refused_at`: instant at which the decoder's connection attempt met a closed port
    let mut refused_at: Option<Instant> = if starts_refused { Some(Instant::now()) } else { None };
    let mut i = 0usize;
    let steps: Vec<Option<Fault>> = seq.iter().map(|f| Some(*f)).chain(std::iter::once(None)).collect();
    while i < steps.len() {
        let step = steps[i];
        if matches!(step, Some(Fault::Refuse) | Some(Fault::LongRefuse) | Some(Fault::VeryLongRefuse)) {
            // the port is closed already (closed before the previous connection ended, or before start)
            disruptive += 1;
            if !learned.is_empty() { learned_before_disruption = learned.len(); }
            std::thread::sleep(Duration::from_millis(match step { Some(Fault::LongRefuse) => 6500, Some(Fault::VeryLongRefuse) => 16_500, _ => 1500 }));
            alive(child, "while its connection attempts were being refused")?;
            peer.open().map_err(|e| format!("harness: cannot re-open the port: {}", e))?;
            i += 1;
            continue;
        }
        // every other step needs an accepted connection
        peer.open().map_err(|e| format!("harness: cannot open the port: {}", e))?;
        let Some(mut conn) = peer.accept(Duration::from_secs(60)) else {
            alive(child, "instead of reconnecting")?;
            // the peer has been listening for a whole minute (the decoder pauses ~5 s between attempts)
            return Err(format!("the decoder did not connect to the listening peer within 60 s (step {} of {:?}{}): it does not keep retrying until a connection succeeds", i, seq, if use_host { ", address given as localhost:<port>" } else { "" }));
        };
        if let Some(t0) = refused_at.take() {
            let waited = t0.elapsed().as_secs_f64();
            let long = i > 0 && steps[i - 1] == Some(Fault::LongRefuse);
            let very_long = i > 0 && steps[i - 1] == Some(Fault::VeryLongRefuse);
            if very_long && waited < 19.5 {
                return Err(format!("the port was closed for 16.5 s (four refused attempts) but the next connection arrived after {:.2} s: a ~5 s pause after each failed attempt is missing", waited));
            }
            if very_long && waited > 28.0 {
                return Err(format!("the port was closed for 16.5 s (four refused attempts, nominally 20 s until the fifth) but the next connection arrived only after {:.2} s: the pause after a failed attempt does not stay at about 5 s", waited));
            }
            if long && waited < 9.5 {
                return Err(format!("the port was closed for 6.5 s (two refused attempts) but the next connection arrived after {:.2} s: a ~5 s pause after each failed attempt is missing", waited));
            }
            if waited < 4.5 {
                return Err(format!("after a refused connection attempt the next connection arrived after {:.2} s: the ~5 s pause is missing", waited));
            }
        }
        alive(child, "after connecting")?;
        let next_is_refuse = matches!(steps.get(i + 1).copied().flatten(), Some(Fault::Refuse) | Some(Fault::LongRefuse) | Some(Fault::VeryLongRefuse));
        match step {
            Some(Fault::AcceptClose) => {
                if next_is_refuse { peer.close(); refused_at = Some(Instant::now()); }
                drop(conn);
            }
            Some(Fault::FramesClose) => {
                let (a, lines) = new_aircraft(k);
                k += 1;
                conn.write_all((lines.join("\n") + "\n").as_bytes()).map_err(|e| format!("harness: write failed: {}", e))?;
                let _ = conn.flush();
                if !wait_for(outpath, &format!("{:06X}", a), Duration::from_secs(30)) {
                    alive(child, "while a new connection delivered a frame")?;
                    return Err(format!("a well-formed frame sent as the first line of a new connection (step {} of {:?}) was not decoded: aircraft {:06X} never appears", i, seq, a));
                }
                learned.push(a);
                if next_is_refuse { peer.close(); refused_at = Some(Instant::now()); }
                drop(conn);
            }
            Some(Fault::ManyCloses) => {
                drop(conn);
                for n in 0..3000 {
                    match peer.accept(Duration::from_secs(30)) {
                        Some(s) => drop(s),
                        None => {
                            alive(child, &format!("after {} connections that the peer closed at once", n))?;
                            return Ok(Outcome::Inconclusive("no reconnect within 30 s during the many-closes step".into()));
                        }
                    }
                    if n % 250 == 0 {
                        alive(child, &format!("after {} connections that the peer closed at once", n))?;
                    }
                }
            }
            Some(Fault::HoldFrames) => {
                let (a, lines) = new_aircraft(k);
                k += 1;
                conn.write_all((lines.join("\n") + "\n").as_bytes()).map_err(|e| format!("harness: write failed: {}", e))?;
                let _ = conn.flush();
                if !wait_for(outpath, &format!("{:06X}", a), Duration::from_secs(30)) {
                    return Err(format!("a well-formed frame sent over a new connection (step {} of {:?}) was not decoded: aircraft {:06X} never appears", i, seq, a));
                }
                learned.push(a);
                std::thread::sleep(Duration::from_millis(5500));
                alive(child, "while a connection was held open")?;
                if next_is_refuse { peer.close(); refused_at = Some(Instant::now()); }
                drop(conn);
            }
            Some(Fault::PartialClose(n)) => {
                let (a, _) = new_aircraft(2000 + k);
                k += 1;
                let full = bits::es(17, 5, a, bits::me_ident(4, 3, [1, 2, 3, 4, 5, 6, 7, 8])).hex();
                let n = (n as usize).clamp(1, 28);
                conn.write_all(full[..n].as_bytes()).map_err(|e| format!("harness: write failed: {}", e))?;
                let _ = conn.flush();
                if n == 28 {
                    learned.push(a); // a complete frame, merely unterminated: processed when the connection ends
                } else {
                    must_not.push(a);
                }
                std::thread::sleep(Duration::from_millis(100));
                if next_is_refuse { peer.close(); refused_at = Some(Instant::now()); }
                drop(conn);
            }
            Some(Fault::PartialReset(n)) => {
                disruptive += 1;
                if !learned.is_empty() { learned_before_disruption = learned.len(); }
                let (a, _) = new_aircraft(1000 + k);
                k += 1;
                let full = bits::es(17, 5, a, bits::me_ident(4, 3, [1, 2, 3, 4, 5, 6, 7, 8])).hex();
                let cut = &full[..(n as usize).min(27)];
                conn.write_all(cut.as_bytes()).map_err(|e| format!("harness: write failed: {}", e))?;
                let _ = conn.flush();
                must_not.push(a);
                std::thread::sleep(Duration::from_millis(150));
                if next_is_refuse { peer.close(); refused_at = Some(Instant::now()); }
                reset(conn);
            }
            Some(Fault::JunkClose) => {
                let mut junk: Vec<u8> = b"hello\n\xff\xfe\x80garbage\n8D4840D6\n".to_vec();
                junk.extend_from_slice(&[0xC3, 0x28, b'\n', 0, 0, b'\n']);
                conn.write_all(&junk).map_err(|e| format!("harness: write failed: {}", e))?;
                let _ = conn.flush();
                std::thread::sleep(Duration::from_millis(100));
                if next_is_refuse { peer.close(); refused_at = Some(Instant::now()); }
                drop(conn);
            }
            Some(Fault::JunkThenFrames) => {
                let (a, lines) = new_aircraft(k);
                k += 1;
                let mut data: Vec<u8> = b"hello\n\xff\xfe\x80garbage\n8D4840D6\n\xc3\x28\n\x00\x00\n\n".to_vec();
                data.extend_from_slice((lines.join("\n") + "\n").as_bytes());
                conn.write_all(&data).map_err(|e| format!("harness: write failed: {}", e))?;
                let _ = conn.flush();
                if !wait_for(outpath, &format!("{:06X}", a), Duration::from_secs(20)) {
                    return Err(format!("TCP source: well-formed frames sent after junk lines (incl. invalid UTF-8) on the same connection were not processed: aircraft {:06X} never appears", a));
                }
                learned.push(a);
                drop(conn);
            }
            Some(Fault::Refuse) | Some(Fault::LongRefuse) | Some(Fault::VeryLongRefuse) | Some(Fault::UseHostName) | Some(Fault::DevBuild) => unreachable!(),
            None => {
                // healthy connection: new aircraft, stays open
                let (a, lines) = new_aircraft(k);
                conn.write_all((lines.join("\n") + "\n").as_bytes()).map_err(|e| format!("harness: write failed: {}", e))?;
                let _ = conn.flush();
                let seen = wait_for(outpath, &format!("{:06X}", a), Duration::from_secs(45));
                alive(child, "after the healthy connection delivered frames")?;
                let out = String::from_utf8_lossy(&std::fs::read(outpath).unwrap_or_default()).to_string();
                if !seen {
                    return Err(format!("frames sent over the healthy connection after {:?} were not decoded: aircraft {:06X} never appears in the output", seq, a));
                }
                let ids = printed_ids(&out);
                learned.push(a);
                for want in &learned {
                    if !ids.contains(&format!("{:06X}", want)) {
                        return Err(format!("after the fault sequence {:?} the table shows {:?}: aircraft {:06X} learned before the interruption is missing", seq, ids, want));
                    }
                }
                for bad in &must_not {
                    if out.contains(&format!("\n{:06X} ", bad)) {
                        return Err(format!("a truncated line of a dropped connection produced a row for {:06X}", bad));
                    }
                }
                drop(conn);
            }
        }
        alive(child, &format!("after step {:?}", step))?;
        i += 1;
    }
    Ok(Outcome::Ok { learned_before: learned_before_disruption, disruptive })
}

fn wait_for(path: &std::path::Path, needle: &str, within: Duration) -> bool {
    let end = Instant::now() + within;
    loop {
        if let Ok(b) = std::fs::read(path) {
            if String::from_utf8_lossy(&b).contains(needle) {
                return true;
            }
        }
        if Instant::now() > end {
            return false;
        }
        std::thread::sleep(Duration::from_millis(20));
    }
}

fn sequences(c: &mut Ctx) -> Vec<Vec<Fault>> {
    let f = all_faults();
    let mut v: Vec<Vec<Fault>> = Vec::new();
    for a in &f {
        v.push(vec![*a]);
    }
    for a in &f {
        for b in &f {
            v.push(vec![*a, *b]);
        }
    }
    if c.tier == Tier::Thorough {
        for a in &f {
            for b in &f {
                for d in &f {
                    v.push(vec![*a, *b, *d]);
                }
            }
        }
    }
    // feeds that ran for a while before the interruption, and two refused attempts in a row
    v.push(vec![Fault::HoldFrames, Fault::Refuse]);
    v.push(vec![Fault::LongRefuse]);
    v.push(vec![Fault::FramesClose, Fault::VeryLongRefuse]);
    v.push(vec![Fault::FramesClose, Fault::ManyCloses, Fault::FramesClose]);
    v.push(vec![Fault::UseHostName, Fault::FramesClose, Fault::Refuse]);
    // the same through the dev-profile binary: per-connection bookkeeping must not overflow or trip a debug assertion
    v.push(vec![Fault::DevBuild, Fault::FramesClose, Fault::ManyCloses, Fault::FramesClose]);
    v.push(vec![Fault::DevBuild, Fault::FramesClose, Fault::PartialReset(14), Fault::JunkClose]);
    v.push(vec![Fault::DevBuild, Fault::FramesClose, Fault::Refuse]);
    v.push(vec![Fault::PartialClose(14)]);
    v.push(vec![Fault::PartialClose(27), Fault::FramesClose]);
    v.push(vec![Fault::FramesClose, Fault::PartialClose(28)]);
    v.push(vec![Fault::FramesClose, Fault::LongRefuse]);
    let n_random = c.tier.pick(18usize, 100usize);
    let lens = if c.tier == Tier::Thorough { 4usize..5 } else { 3usize..5 };
    let mut extra = c.draw(n_random, proptest::collection::vec(fault_strategy(), lens));
    // keep runs short: at most two refusals per sequence (each costs >= 5 s)
    for s in extra.iter_mut() {
        let mut r = 0;
        for x in s.iter_mut() {
            if *x == Fault::Refuse {
                r += 1;
                if r > 2 { *x = Fault::AcceptClose; }
            }
        }
    }
    v.extend(extra);
    v
}

fn run(c: &mut Ctx) {
    let seqs = sequences(c);
    let mine: Vec<(u64, Vec<Fault>)> = seqs.into_iter().enumerate().filter(|(i, _)| c.mine(*i as u64)).map(|(i, s)| (i as u64, s)).collect();
    // run this worker's share concurrently: the cases mostly sleep
    let results: Vec<(Vec<Fault>, Result<Outcome, String>)> = std::thread::scope(|sc| {
        let hs: Vec<_> = mine.iter().map(|(i, s)| { let s = s.clone(); let i = *i; sc.spawn(move || { let r = check(&s, i); (s, r) }) }).collect();
        hs.into_iter().map(|h| h.join().unwrap_or_else(|_| (vec![], Err("harness thread panicked".into())))).collect()
    });
    for (s, r) in results {
        c.eval(1);
        match r {
            Ok(Outcome::Ok { learned_before, disruptive }) => {
                if disruptive >= 1 && learned_before >= 1 {
                    c.nontrivial(&s);
                    c.class("disruption_after_learning");
                } else if disruptive >= 1 {
                    c.nontrivial(&s);
                    c.class("disruption");
                } else {
                    c.class("benign_sequence");
                }
                if c.want_sample() {
                    c.sample(json!({"faults": s, "then": "healthy connection with a new aircraft", "result": "alive, reconnected, all learned aircraft listed"}));
                }
            }
            Ok(Outcome::Inconclusive(m)) => c.inconclusive(&m),
            Err(m) => {
                if m.starts_with("harness:") || m.starts_with("cannot start") {
                    c.inconclusive(&m);
                } else if !c.failed() {
                    c.fail(m, "c18:tcp", json!({"kind":"seq","faults":s}));
                }
            }
        }
    }
    c.exhaustive(if c.tier == Tier::Thorough { "all fault sequences of length <= 3 over the five fault kinds" } else { "all fault sequences of length <= 2 over the five fault kinds" });
}

fn replay(c: &mut Ctx, case: &Value) {
    c.eval(1);
    let Ok(s) = serde_json::from_value::<Vec<Fault>>(case["faults"].clone()) else { return c.inconclusive("bad replay") };
    match check(&s, 1400) {
        Ok(Outcome::Ok { .. }) => {}
        Ok(Outcome::Inconclusive(m)) => c.inconclusive(&m),
        Err(m) => c.fail(m, "c18:tcp", case.clone()),
    }
}
