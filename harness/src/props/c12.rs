//! C12 — rows live exactly as long as the aircraft is being heard.

use super::PropSpec;
use crate::alphabet;
use crate::bits::{self, Frame};
use crate::ctx::Ctx;
use crate::run::{self, Opts};
use proptest::prelude::*;
use serde::{Deserialize, Serialize};
use serde_json::{json, Value};
use std::collections::BTreeMap;

pub fn spec() -> PropSpec {
    PropSpec {
        id: "C12",
        level: "exploration",
        rule: "generated schedules of frames and silences for 2-6 aircraft (and 'crowd' schedules with 15-40 aircraft): silences (millisecond resolution) drawn from {0, 1 s, d-2 s, d-1 s, d-0.6 s, d-0.35 s, d, d+1 ms, d+0.4 s, d+1 s, 2d, and the wrap points of 8/16/31/32-bit second and millisecond counters}, delete_after d in {1,5,60,600, 2^32, 2^33+5, i64::MAX/1000+1, i64::MAX}, every one of the nine formats as the refreshing frame, -U on/off, table hidden or displayed and redrawn at every frame, optional -f (excluded frames must neither refresh nor count). Maximal runs of frames are one reader run each; a silence is simulated by shifting every stored time stamp. History invariant after every segment: (i) heard < d whole seconds ago => row present; (ii) every aircraft heard in the segment has a last-contact stamp not older than the segment start; (iii) silent >= d, not heard in a segment with >= 12 accepted frames => absent afterwards; (iv) a row re-created after >= 12 accepted frames of the segment preceded the aircraft's first frame equals (wall-clock stamps excluded) the row the same frames create in an empty table; (v) row count <= aircraft heard within d + 12. Non-trivial = schedule with >= 1 expiry and >= 1 survival across a sweep; distinct by hash",
        assumptions: &["a sweep is only required after 12 accepted frames within one reader run (the sweep counter lives in the reader); segments with fewer accepted frames leave expiry unconstrained", "ages are bounded from both sides with the measured real time of each segment; an age that straddles the limit within that error is unconstrained; schedules whose real run time exceeds 0.9 s are discarded"],
        workers: 16,
        also_nochk: false,
        fuzz_target: None,
        quick_budget_s: 900,
        thorough_budget_s: 3600,
        min_nontrivial_quick: 3_000,
        min_nontrivial_thorough: 100_000,
        run,
        replay,
    }
}

#[derive(Clone, Debug, Serialize, Deserialize, PartialEq, Eq, Hash)]
pub enum Ev {
    F(u32, Frame), // address, frame
    S(i64), // silence in milliseconds
}

#[derive(Clone, Debug, Serialize, Deserialize, PartialEq, Eq, Hash)]
pub struct Sched {
    pub opts: Opts,
    pub evs: Vec<Ev>,
}

fn addr_of(i: usize) -> u32 {
    0x440000 + 0x111 * (i as u32 + 1)
}

fn sched_strategy() -> BoxedStrategy<Sched> {
    let d = prop_oneof![4 => Just(1i64), 4 => Just(5i64), 4 => Just(60i64), 4 => Just(600i64), 1 => Just(1i64 << 32), 1 => Just((1i64 << 33) + 5), 1 => Just(i64::MAX), 1 => Just(i64::MAX / 1000 + 1)];
    (d, (any::<bool>(), prop::bool::weighted(0.15)), prop_oneof![3 => Just(None), 1 => proptest::sample::subsequence(vec![0u32, 4, 5, 11, 16, 17, 18, 20, 21], 1..6).prop_map(Some)], prop_oneof![4 => 2usize..=6, 1 => 15usize..=40])
        .prop_flat_map(|(d, u, f, nac)| {
            // for the huge limits the silences are those of a 60 s limit: nothing may ever expire
            let dd = d;
            let d = if d > 1_000_000 { 60 } else { d };
            let silence = proptest::sample::select(vec![0i64, 1000, (d - 2).max(0) * 1000, (d - 1).max(0) * 1000, d * 1000 - 350, d * 1000 - 600, d * 1000, d * 1000 + 1, d * 1000 + 400, (d + 1) * 1000, 2 * d * 1000, 2 * d * 1000, 256_000, 65_536_000, 4_294_967_000, 4_294_968_000, (1i64 << 31) * 1000 + 500, (1i64 << 32) * 1000, ((1i64 << 32) + 1) * 1000]);
            let frame = (0..nac).prop_flat_map(|i| alphabet::frame_any(addr_of(i)).prop_map(move |f| Ev::F(addr_of(i), f)));
            // bursts of one chatty aircraft make sweeps happen
            let burst = (0..nac, 12usize..30).prop_flat_map(|(i, n)| proptest::collection::vec(alphabet::frame_any(addr_of(i)).prop_map(move |f| Ev::F(addr_of(i), f)), n..n + 1));
            let ev = prop_oneof![6 => frame.prop_map(|e| vec![e]), 3 => silence.prop_map(|s| vec![Ev::S(s)]), 2 => burst];
            let len = if nac > 6 { 20..60 } else { 4..40 };
            (Just(dd), Just(u), Just(f), proptest::collection::vec(ev, len))
        })
        .prop_map(|(d, (u, shown), f, evs)| {
            // a share of the schedules runs with the table displayed and redrawn at every frame: sweeps must not depend on it
            let (i, upd) = if shown { (vec!["aAews".to_string()], -1) } else { (vec!["Q".to_string()], 3) };
            Sched { opts: Opts { d, u, f, i, upd, ..Opts::default() }, evs: evs.into_iter().flatten().collect() }
        })
        .boxed()
}

#[derive(Default)]
pub struct Stats {
    pub expiries: u64,
    pub survivals_across_sweep: u64,
    pub fresh_rows_checked: u64,
    pub segments: u64,
    pub frames: u64,
    pub discarded: bool,
}

fn admitted(o: &Opts, f: &Frame) -> bool {
    o.f.as_ref().map(|l| l.contains(&f.df())).unwrap_or(true)
}

pub fn check(s: &Sched, st: &mut Stats) -> Result<(), String> {
    let t = run::new_table();
    let d = s.opts.d;
    let d_ms = d.saturating_mul(1000);
    let mut now = 0i64; // virtual milliseconds added by silences
    // per aircraft: virtual time of the last accepted frame, and real instants bounding when it was processed
    let mut last_heard: BTreeMap<u32, (i64, std::time::Instant, std::time::Instant)> = BTreeMap::new();
    let started = std::time::Instant::now();
    // split into segments
    let mut i = 0;
    while i < s.evs.len() {
        match &s.evs[i] {
            Ev::S(ms) => {
                run::shift_time_ms(&t, *ms);
                now += *ms;
                i += 1;
            }
            Ev::F(..) => {
                let mut seg: Vec<(u32, Frame)> = Vec::new();
                while i < s.evs.len() {
                    if let Ev::F(a, f) = &s.evs[i] {
                        seg.push((*a, *f));
                        i += 1;
                    } else {
                        break;
                    }
                }
                let acc: Vec<&(u32, Frame)> = seg.iter().filter(|(_, f)| admitted(&s.opts, f)).collect();
                let seg_start = chrono::Utc::now().timestamp_micros();
                let seg_start_i = std::time::Instant::now();
                let before = run::snapshot(&t);
                let lines: Vec<String> = seg.iter().map(|(_, f)| f.hex()).collect();
                run::run_lines(&s.opts, &t, &lines).map_err(|e| format!("reader failed: {:?}", e))?;
                let seg_end_i = std::time::Instant::now();
                let after = run::snapshot(&t);
                st.segments += 1;
                st.frames += acc.len() as u64;
                if started.elapsed().as_secs_f64() > 0.9 {
                    st.discarded = true;
                    return Ok(());
                }
                for (k, r) in &after {
                    if !crate::icao_table::reg_ok(*k, &r.reg) {
                        return Err(format!("segment ending at event {}: the row of {:06X} shows country {:?} (a row must always carry the country of its address, also after it was silent)", i, k, r.reg));
                    }
                }
                let heard_now: std::collections::BTreeSet<u32> = acc.iter().map(|(a, _)| *a).collect();
                let ctx = |m: String| format!("segment ending at event {} (virtual t = {} ms, {} accepted frames, delete_after {} s, {}): {}", i, now, acc.len(), d, s.opts.label(), m);
                // (ii) + (i) for aircraft heard in this segment
                for a in &heard_now {
                    let Some(r) = after.get(a) else {
                        return Err(ctx(format!("aircraft {:06X} sent an accepted frame in this segment but has no row", a)));
                    };
                    if r.timestamp < seg_start {
                        return Err(ctx(format!("aircraft {:06X} sent an accepted frame but its last-contact time was not refreshed (age did not restart at 0)", a)));
                    }
                }
                // (i) for aircraft heard earlier, less than d seconds ago
                for (a, (th, heard_lo, heard_hi)) in &last_heard {
                    if heard_now.contains(a) {
                        continue;
                    }
                    // age bounds in milliseconds: virtual silence plus the real time that passed
                    let age_hi = (now - th) + seg_end_i.duration_since(*heard_lo).as_millis() as i64 + 2;
                    let age_lo = (now - th) + seg_start_i.saturating_duration_since(*heard_hi).as_millis() as i64;
                    let silent = now - th;
                    if age_hi < d_ms {
                        if !after.contains_key(a) {
                            return Err(ctx(format!("aircraft {:06X} was heard at most {} ms ago (< delete_after) but its row is gone", a, age_hi)));
                        }
                        if acc.len() >= 12 {
                            st.survivals_across_sweep += 1;
                        }
                    } else if age_lo < d_ms {
                        // the age straddles the limit within the measurement error: unconstrained
                    } else if acc.len() >= 12 {
                        // (iii)
                        if after.contains_key(a) {
                            return Err(ctx(format!("aircraft {:06X} has been silent for {} ms (>= delete_after) and {} accepted frames arrived since, yet its row is still in the table", a, silent, acc.len())));
                        }
                        if before.contains_key(a) {
                            st.expiries += 1;
                        }
                    }
                }
                // (iv) fresh row after removal
                for a in &heard_now {
                    if let Some((th, _, heard_hi)) = last_heard.get(a) {
                        if (now - th) + seg_start_i.saturating_duration_since(*heard_hi).as_millis() as i64 >= d_ms {
                            let first = acc.iter().position(|(x, _)| x == a).unwrap();
                            if first >= 12 {
                                let own: Vec<String> = acc.iter().filter(|(x, _)| x == a).map(|(_, f)| f.hex()).collect();
                                let t2 = run::new_table();
                                run::run_lines(&s.opts, &t2, &own).map_err(|e| format!("reader failed: {:?}", e))?;
                                let fresh = run::snapshot(&t2);
                                let want = fresh.get(a).map(|r| r.no_clock());
                                let got = after.get(a).map(|r| r.no_clock());
                                if want != got {
                                    let diff = match (&want, &got) {
                                        (Some(w), Some(g)) => w.diff(g).join("; "),
                                        _ => "row missing".into(),
                                    };
                                    return Err(ctx(format!("aircraft {:06X} came back after expiry but its row remembers earlier data: {}", a, diff)));
                                }
                                st.fresh_rows_checked += 1;
                                st.expiries += 1;
                            }
                        }
                    }
                }
                // (v)
                if acc.len() >= 12 {
                    let live = last_heard.iter().filter(|(a, th)| now - th.0 < d_ms.saturating_add(1000) && !heard_now.contains(a)).count() + heard_now.len();
                    if after.len() > live + 12 {
                        return Err(ctx(format!("table holds {} rows but only {} aircraft were heard within the last {} s", after.len(), live, d)));
                    }
                }
                for a in heard_now {
                    last_heard.insert(a, (now, seg_start_i, seg_end_i));
                }
            }
        }
    }
    Ok(())
}

fn run(c: &mut Ctx) {
    let cases = c.tier.pick(48_000, 800_000);
    let r = c.proptest(cases, sched_strategy(), |c, s, counting| {
        let mut st = Stats::default();
        let r = check(s, &mut st);
        if counting {
            c.eval(st.segments.max(1));
            if st.discarded {
                c.excluded("ambiguous_wallclock (schedule took > 0.9 s)");
            } else {
                if st.expiries >= 1 && st.survivals_across_sweep >= 1 {
                    c.nontrivial(s);
                    c.class("expiry_and_survival");
                } else if st.expiries >= 1 {
                    c.class("expiry_only");
                } else {
                    c.class("no_expiry");
                }
                c.class_n("fresh_rows_checked", st.fresh_rows_checked);
                c.class_n("expiries", st.expiries);
                c.class(&format!("delete_after_{}", if s.opts.d > 1_000_000 { "2^32_or_more".to_string() } else { s.opts.d.to_string() }));
                if s.opts.f.is_some() { c.class("with_filter"); }
                if !s.opts.is_quiet() { c.class("table_displayed_every_frame"); }
                if r.is_ok() && c.want_sample() && st.expiries >= 1 && s.evs.len() < 30 {
                    c.sample(json!({"opts": s.opts.label(), "events": s.evs.iter().map(|e| match e { Ev::F(a, f) => format!("{:06X} DF{} {}", a, f.df(), f.hex()), Ev::S(n) => format!("silence {} ms", n) }).collect::<Vec<_>>()}));
                }
            }
        }
        r
    });
    if let Some((s, m)) = r {
        c.fail(m, "c12:lifetime", json!({"kind":"sched","s":s}));
    }
    // every format as the only refreshing frame, both paths: heard at t=0 via format X, silence d-1, refreshed via X, silence d-1, 12 frames of another aircraft: must still be there
    if c.worker == 0 {
        for u in [false, true] {
            for &df in bits::NINE.iter() {
                let a = addr_of(0);
                let f = match df {
                    11 => bits::df11(a, 5, 0),
                    17 | 18 => bits::es(df, 5, a, bits::me_raw(28, 0)),
                    0 | 4 | 16 => bits::ap_frame(df, a, 0x0000_0C38_0000_0000u128 << 56),
                    _ => bits::ap_frame(df, a, 0),
                };
                let other: Vec<Ev> = (0..14).map(|_| Ev::F(addr_of(1), bits::df11(addr_of(1), 5, 0))).collect();
                let mut evs = vec![Ev::F(a, f), Ev::S(59_400), Ev::F(a, f), Ev::S(59_400)];
                evs.extend(other);
                let s = Sched { opts: Opts { d: 60, u, ..Opts::default() }, evs };
                let mut st = Stats::default();
                c.eval(1);
                c.class("refresh_by_each_format");
                c.nontrivial(&s);
                if let Err(m) = check(&s, &mut st) {
                    if !c.failed() {
                        c.fail(format!("refreshing frame DF{}: {}", df, m), "c12:lifetime", json!({"kind":"sched","s":s}));
                    }
                }
            }
        }
    }
}

fn replay(c: &mut Ctx, case: &Value) {
    c.eval(1);
    let Ok(s) = serde_json::from_value::<Sched>(case["s"].clone()) else { return c.inconclusive("bad replay") };
    let mut st = Stats::default();
    if let Err(m) = check(&s, &mut st) {
        c.fail(m, "c12:lifetime", case.clone());
    }
}
