//! C17 — registration country follows the ICAO allocation for all 2^24 addresses.

use super::PropSpec;
use crate::bits;
use crate::ctx::Ctx;
use crate::icao_table::{self, Expect};
use crate::run::{self, Opts};
use proptest::prelude::*;
use serde_json::{json, Value};
use squitterator::{Downlink, Plane, DF};

pub fn spec() -> PropSpec {
    PropSpec {
        id: "C17",
        level: "exploration",
        rule: "every 24-bit address is enumerated once through the public constructor Plane::from_downlink and compared with an independently transcribed Annex 10 block table (non-trivial = the reference fully determines the code: inside a block or outside every block; distinct by enumeration); additionally generated addresses (block edges +-1, random) go through the whole reader pipeline as DF11, DF17 and DF4 frames (non-trivial = row exists and reference determined; distinct by (address, format)); and short histories (first frame of any of the nine formats, silence shorter / longer than delete_after, 0..25 frames of another aircraft so that the row is live, expired-but-unswept, or swept and re-created, second frame of any format, -U on/off): the code shown at the end must again be the block's; and the code as printed by the program's own table output (second field of the row) for the ends and the middle of every block and the addresses just outside",
        assumptions: &[
            "reference table transcribed from memory of Annex 10 Vol III table 9-1; where it disagrees with the code and cannot be checked offline (Malta 4D2400-4D2FFF, Montenegro 516000-5163FF) either answer is accepted and the addresses are counted as excluded",
            "country codes are the ISO 3166 alpha-2 codes of the State names (YU for the block still labelled Yugoslavia), ICAO1/ICAO2 for the two ICAO blocks",
        ],
        workers: 16,
        also_nochk: false,
        fuzz_target: None,
        quick_budget_s: 600,
        thorough_budget_s: 1800,
        min_nontrivial_quick: 16_000_000,
        min_nontrivial_thorough: 16_000_000,
        run,
        replay,
    }
}

fn judge(addr: u32, reg: &str) -> Result<bool, String> {
    match icao_table::lookup(addr) {
        Expect::Code(c) => {
            if reg == c { Ok(true) } else { Err(format!("address {:06X}: shows {:?}, allocation says {:?}", addr, reg, c)) }
        }
        Expect::Unallocated => {
            if reg == "??" { Ok(true) } else { Err(format!("address {:06X}: shows {:?}, but it lies outside every allocation block ('??' expected)", addr, reg)) }
        }
        Expect::Either(c) => {
            if reg == c || reg == "??" { Ok(false) } else { Err(format!("address {:06X}: shows {:?}, expected {:?} or '??'", addr, reg, c)) }
        }
    }
}

fn ctor_reg(df: &DF, addr: u32) -> String {
    Plane::from_downlink(df, addr).reg.to_string()
}

fn reader_reg(addr: u32, fmt: u32) -> Result<Option<String>, String> {
    let f = match fmt {
        11 => bits::df11(addr, 5, 0),
        17 => bits::es(17, 5, addr, bits::me_raw(28, 0x1234)),
        _ => bits::df4(addr, bits::ac13_q1(1000), 0),
    };
    let t = run::new_table();
    run::run_lines(&Opts::quiet(), &t, &[f.hex()]).map_err(|e| format!("reader failed: {:?}", e))?;
    let s = run::snapshot(&t);
    Ok(s.get(&addr).map(|r| r.reg.clone()))
}

fn frame_of(addr: u32, fmt: u32) -> bits::Frame {
    match fmt {
        11 => bits::df11(addr, 5, 0),
        17 => bits::es(17, 5, addr, bits::me_raw(28, 0x1234)),
        18 => bits::es(18, addr % 8, addr, bits::me_raw(28, 0x1234)), // every control-field value: none of them changes whose address it is
        5 => bits::df5(addr, bits::id13_from_squawk(1, 2, 3, 4, 0), 0),
        20 => bits::df20(addr, bits::ac13_q1(1200), 0, 0),
        21 => bits::df21(addr, bits::id13_from_squawk(7, 0, 0, 0, 0), 0, 0),
        0 => bits::df0(addr, bits::ac13_q1(900), 0),
        16 => bits::df16(addr, bits::ac13_q1(900), 0),
        _ => bits::df4(addr, bits::ac13_q1(1000), 0),
    }
}

/// the country after a short history: first frame, a silence (possibly longer than delete_after), `between` frames of
/// another aircraft (12 or more make a sweep happen), then a second frame of the aircraft
fn history_reg(addr: u32, fmt1: u32, fmt2: u32, silence_s: i64, between: usize, u: bool) -> Result<Option<String>, String> {
    let opts = Opts { d: 60, u, ..Opts::quiet() };
    let t = run::new_table();
    run::run_lines(&opts, &t, &[frame_of(addr, fmt1).hex()]).map_err(|e| format!("reader failed: {:?}", e))?;
    if silence_s != 0 {
        run::shift_time(&t, silence_s);
    }
    let other = if addr == 0x4840D6 { 0x4840D7 } else { 0x4840D6 };
    let mut lines: Vec<String> = (0..between).map(|_| bits::df11(other, 5, 0).hex()).collect();
    lines.push(frame_of(addr, fmt2).hex());
    run::run_lines(&opts, &t, &lines).map_err(|e| format!("reader failed: {:?}", e))?;
    Ok(run::snapshot(&t).get(&addr).map(|r| r.reg.clone()))
}

fn run(c: &mut Ctx) {
    if !icao_table::table_is_disjoint() {
        c.inconclusive("reference table not disjoint");
        return;
    }
    let msg = squitterator::get_message(&bits::df11(0x400000, 5, 0).hex());
    let Some(msg) = msg else {
        c.fail("a well-formed DF11 frame is not accepted by get_message".into(), "c17:setup", json!({"kind":"addr","addr":0x400000,"via":"reader","fmt":11}));
        return;
    };
    let Ok(df) = DF::from_message(&msg) else {
        c.inconclusive("DF::from_message failed");
        return;
    };
    // exhaustive sweep, contiguous chunks per worker
    let total: u64 = 1 << 24;
    let per = total / c.nworkers as u64;
    let lo = per * c.worker as u64;
    let hi = if c.worker == c.nworkers - 1 { total } else { lo + per };
    let mut determined = 0u64;
    let mut uncertain = 0u64;
    for a in lo..hi {
        let addr = a as u32;
        let reg = ctor_reg(&df, addr);
        match judge(addr, &reg) {
            Ok(true) => determined += 1,
            Ok(false) => uncertain += 1,
            Err(m) => {
                if !c.failed() {
                    c.fail(m, "c17:block", json!({"kind":"addr","addr":addr,"via":"ctor"}));
                }
            }
        }
        if a % 1_000_003 == 0 {
            c.sample(json!({"address": format!("{:06X}", addr), "shown": reg, "via": "Plane::from_downlink"}));
        }
    }
    c.eval(hi - lo);
    c.nontrivial_enumerated(determined);
    c.excluded_n("reference-uncertain address (either answer accepted)", uncertain);
    c.exhaustive("all 2^24 addresses through Plane::from_downlink");
    c.class_n("ctor_sweep", hi - lo);

    // adjacency: each block edge followed by each of its 24 one-bit neighbours (the lookup must not depend on the
    // previous lookup); done by worker 0 in one thread
    if c.worker == 0 {
        let mut n = 0u64;
        let edges: Vec<u32> = icao_table::BLOCKS.iter().flat_map(|b| [b.0, b.1, (b.0 + b.1) / 2]).collect();
        'outer: for &e in &edges {
            for b in 0..24u32 {
                for addr in [e, e ^ (1 << b)] {
                    let reg = ctor_reg(&df, addr);
                    n += 1;
                    if let Err(m) = judge(addr, &reg) {
                        c.fail(format!("{} (looked up directly after {:06X})", m, e), "c17:block", json!({"kind":"addr_pair","first":e,"addr":addr}));
                        break 'outer;
                    }
                }
            }
        }
        c.eval(n);
        c.class_n("one_bit_neighbour_lookups", n);
    }
    // the code as it is *shown*: rows printed by the program itself (Planes::print) for both ends and the middle of every
    // block, the addresses just outside, and the uncertain ranges; second field of the printed row
    if c.worker == 1 % c.nworkers {
        let mut addrs: Vec<u32> = icao_table::BLOCKS
            .iter()
            .chain(icao_table::UNCERTAIN.iter())
            .flat_map(|b| [b.0.wrapping_sub(1) & 0xFF_FFFF, b.0, (b.0 + b.1) / 2, b.1, (b.1 + 1) & 0xFF_FFFF])
            .filter(|a| *a != 0)
            .collect();
        addrs.sort();
        addrs.dedup();
        for u in [false, true] {
            let opts = Opts { u, i: vec!["aAews".into()], ..Opts::quiet() };
            let quiet = Opts { u, ..Opts::quiet() };
            let t = run::new_table();
            let lines: Vec<String> = addrs.iter().map(|a| frame_of(*a, if a % 3 == 0 { 17 } else { 11 }).hex()).collect();
            if let Err(e) = run::run_lines(&quiet, &t, &lines) {
                c.fail(format!("reader failed: {:?}", e), "c17:printed", json!({"kind":"printed","u":u}));
                return;
            }
            let printed = crate::render::print_table(&t, &opts);
            let mut seen = 0u64;
            for l in &printed {
                let mut it = l.split_whitespace();
                let (Some(a), Some(code)) = (it.next(), it.next()) else { continue };
                let Ok(addr) = u32::from_str_radix(a, 16) else { continue };
                seen += 1;
                match judge(addr, code) {
                    Ok(true) => c.nontrivial(&("printed", addr, u)),
                    Ok(false) => c.excluded("reference-uncertain address (either answer accepted)"),
                    Err(m) => {
                        if !c.failed() {
                            c.fail(format!("{} [as printed in the table row {:?}]", m, l.chars().take(24).collect::<String>()), "c17:printed", json!({"kind":"printed","addr":addr,"u":u}));
                        }
                    }
                }
            }
            c.eval(seen);
            c.class_n("printed_rows", seen);
            if seen != addrs.len() as u64 && !c.failed() {
                c.fail(format!("{} aircraft were heard but {} rows with an address and a code were printed", addrs.len(), seen), "c17:printed", json!({"kind":"printed","u":u}));
            }
        }
    }
    // generated: block edges and random addresses through the reader, three formats
    let edges: Vec<u32> = icao_table::BLOCKS
        .iter()
        .chain(icao_table::UNCERTAIN.iter())
        .flat_map(|b| [b.0.wrapping_sub(1) & 0xFF_FFFF, b.0, b.0 + 1, b.1 - 1, b.1, (b.1 + 1) & 0xFF_FFFF])
        .filter(|a| *a != 0)
        .collect();
    let n_edges = edges.len();
    let strat = (prop_oneof![3 => (0..n_edges).prop_map(move |i| edges[i]), 2 => 1u32..0xFF_FFFF], prop_oneof![Just(11u32), Just(17u32), Just(4u32)]);
    let cases = c.tier.pick(6000, 60000);
    let r = c.proptest(cases, strat, |c, &(addr, fmt), counting| {
        let reg = reader_reg(addr, fmt)?;
        let Some(reg) = reg else {
            return Err(format!("no row for address {:06X} after a well-formed DF{} frame", addr, fmt));
        };
        let det = judge(addr, &reg)?;
        if counting {
            c.eval(1);
            c.class(&format!("reader_df{}", fmt));
            if det {
                c.nontrivial(&("reader", addr, fmt));
            } else {
                c.excluded("reference-uncertain address (either answer accepted)");
            }
            if c.out.samples.len() < 6 {
                c.sample(json!({"address": format!("{:06X}", addr), "format": fmt, "shown": reg, "via": "reader"}));
            }
        }
        Ok(())
    });
    if let Some(((addr, fmt), m)) = r {
        c.fail(m, "c17:reader", json!({"kind":"addr","addr":addr,"via":"reader","fmt":fmt}));
        return;
    }
    // the code is a function of the address at every point of a row's life: after updates by other formats, after a
    // silence shorter or longer than delete_after, before and after the sweep, on both update paths
    let edges2: Vec<u32> = icao_table::BLOCKS.iter().flat_map(|b| [b.0, b.1]).filter(|a| *a != 0).collect();
    let n2 = edges2.len();
    let fmts = || proptest::sample::select(vec![0u32, 4, 5, 11, 16, 17, 18, 20, 21]);
    let strat = (prop_oneof![2 => (0..n2).prop_map(move |i| edges2[i]), 2 => 1u32..0xFF_FFFF], fmts(), fmts(), proptest::sample::select(vec![0i64, 0, 30, 59, 61, 65, 3600, -5]), proptest::sample::select(vec![0usize, 0, 1, 5, 11, 12, 13, 25]), any::<bool>());
    let cases = c.tier.pick(2400, 40000);
    let r = c.proptest(cases, strat, |c, &(addr, f1, f2, sil, between, u), counting| {
        let reg = history_reg(addr, f1, f2, sil, between, u)?;
        let Some(reg) = reg else {
            return Err(format!("no row for address {:06X} after DF{}, {} s of silence, {} frames of another aircraft and DF{} (-U {})", addr, f1, sil, between, f2, u));
        };
        let det = judge(addr, &reg).map_err(|m| format!("{} [history: DF{}, {} s of silence, {} frames of another aircraft, DF{}, delete_after 60, -U {}]", m, f1, sil, between, f2, u))?;
        if counting {
            c.eval(1);
            c.class(if sil > 60 { if between >= 12 { "history_expired_and_swept" } else { "history_expired_not_swept" } } else { "history_live_row" });
            if det {
                c.nontrivial(&("history", addr, f1, f2, sil, between, u));
            } else {
                c.excluded("reference-uncertain address (either answer accepted)");
            }
        }
        Ok(())
    });
    if let Some(((addr, f1, f2, sil, between, u), m)) = r {
        c.fail(m, "c17:history", json!({"kind":"history","addr":addr,"f1":f1,"f2":f2,"silence":sil,"between":between,"u":u}));
    }
}

fn replay(c: &mut Ctx, case: &Value) {
    let addr = case.get("addr").and_then(|v| v.as_u64()).unwrap_or(0) as u32;
    let via = case.get("via").and_then(|v| v.as_str()).unwrap_or("ctor");
    c.eval(1);
    if case.get("kind").and_then(|k| k.as_str()) == Some("printed") {
        let u = case["u"].as_bool().unwrap_or(false);
        let t = run::new_table();
        let addrs: Vec<u32> = if addr != 0 { vec![addr] } else { icao_table::BLOCKS.iter().map(|b| b.0).filter(|a| *a != 0).collect() };
        let lines: Vec<String> = addrs.iter().map(|a| frame_of(*a, 11).hex()).collect();
        let _ = run::run_lines(&Opts { u, ..Opts::quiet() }, &t, &lines);
        let printed = crate::render::print_table(&t, &Opts { u, i: vec!["aAews".into()], ..Opts::quiet() });
        let mut seen = 0;
        for l in &printed {
            let mut it = l.split_whitespace();
            if let (Some(a), Some(code)) = (it.next(), it.next()) {
                if let Ok(a) = u32::from_str_radix(a, 16) {
                    seen += 1;
                    if let Err(m) = judge(a, code) {
                        c.fail(format!("{} [as printed]", m), "c17:printed", case.clone());
                        return;
                    }
                }
            }
        }
        if seen != addrs.len() {
            c.fail(format!("{} aircraft heard, {} rows printed", addrs.len(), seen), "c17:printed", case.clone());
        }
        return;
    }
    if case.get("kind").and_then(|k| k.as_str()) == Some("history") {
        let g = |k: &str| case[k].as_i64().unwrap_or(0);
        match history_reg(addr, g("f1") as u32, g("f2") as u32, g("silence"), g("between") as usize, case["u"].as_bool().unwrap_or(false)) {
            Ok(Some(reg)) => {
                if let Err(m) = judge(addr, &reg) {
                    c.fail(m, "c17:history", case.clone());
                }
            }
            Ok(None) => c.fail(format!("no row for address {:06X}", addr), "c17:history", case.clone()),
            Err(m) => c.fail(m, "c17:history", case.clone()),
        }
        return;
    }
    if case.get("kind").and_then(|k| k.as_str()) == Some("addr_pair") {
        let first = case["first"].as_u64().unwrap_or(0) as u32;
        if let Some(msg) = squitterator::get_message(&bits::df11(0x400000, 5, 0).hex()) {
            if let Ok(df) = DF::from_message(&msg) {
                let _ = ctor_reg(&df, first);
                let reg = ctor_reg(&df, addr);
                if let Err(m) = judge(addr, &reg) {
                    c.fail(m, "c17:block", case.clone());
                }
            }
        }
        return;
    }
    if via == "reader" {
        let fmt = case.get("fmt").and_then(|v| v.as_u64()).unwrap_or(11) as u32;
        match reader_reg(addr, fmt) {
            Ok(Some(reg)) => {
                if let Err(m) = judge(addr, &reg) {
                    c.fail(m, "c17:reader", case.clone());
                }
            }
            Ok(None) => c.fail(format!("no row for address {:06X}", addr), "c17:reader", case.clone()),
            Err(m) => c.fail(m, "c17:reader", case.clone()),
        }
    } else {
        let msg = squitterator::get_message(&bits::df11(0x400000, 5, 0).hex());
        if let Some(msg) = msg {
            if let Ok(df) = DF::from_message(&msg) {
                let reg = ctor_reg(&df, addr);
                if let Err(m) = judge(addr, &reg) {
                    c.fail(m, "c17:block", case.clone());
                }
            }
        }
    }
}
