//! C16 — DF filter admits only the listed formats; DF counters are exact.

use super::c13::accepted;
use super::PropSpec;
use crate::alphabet;
use crate::bits::{self, Frame, NINE};
use crate::cli;
use crate::ctx::Ctx;
use crate::gen;
use crate::props::c02::frame_of_digits;
use crate::run::{self, Opts};
use proptest::prelude::*;
use serde::{Deserialize, Serialize};
use serde_json::{json, Value};
use std::collections::BTreeMap;
use std::time::Duration;

pub fn spec() -> PropSpec {
    PropSpec {
        id: "C16",
        level: "exploration",
        rule: "generated streams mixing the nine formats, other DF values, junk lines, zero-address frames and parity-failed squitters x -f in {absent, subsets of the nine, lists with foreign values} x -c. (a) metamorphic, in process: table(stream, -f F) == table(stream restricted to frames with DF in F, no filter), wall-clock stamps excluded. (b) counters: the reader's own output (captured in process with a refresh per frame, and through the built CLI for a share of the cases) - the last 'DFn:count' line must list DFs in ascending order and, for each of the nine formats, exactly the number of reference-accepted, non-zero-address, admitted frames (a zero count may be absent); without -c there is no such line. Non-trivial = stream with >= 3 formats, >= 1 frame excluded by the filter and >= 1 rejected line; distinct by hash",
        assumptions: &["counts of DF values outside the nine formats are not asserted (no address rule is stated for them)", "reference acceptance predicate of C02/C04"],
        workers: 16,
        also_nochk: false,
        fuzz_target: None,
        quick_budget_s: 900,
        thorough_budget_s: 3600,
        min_nontrivial_quick: 2_000,
        min_nontrivial_thorough: 60_000,
        run,
        replay,
    }
}

#[derive(Clone, Debug, Serialize, Deserialize, PartialEq, Eq, Hash)]
pub struct Case {
    pub lines: Vec<Vec<u8>>,
    pub filter: Option<Vec<u32>>,
    pub count: bool,
    pub u: bool,
    /// delete_after: 0 makes every sweep visible (a filtered frame must not move the sweep schedule)
    #[serde(default = "big_d")]
    pub d: i64,
    /// -M list (message logging must not interfere with the filter)
    #[serde(default)]
    pub m: Option<Vec<u32>>,
}
fn big_d() -> i64 {
    1_000_000
}

fn line_strategy() -> BoxedStrategy<Vec<u8>> {
    prop_oneof![
        12 => (0usize..4).prop_flat_map(|a| alphabet::frame_any(gen::POOL[a])).prop_map(|f| f.hex().into_bytes()),
        // zero-address frames
        1 => (proptest::sample::select(NINE.to_vec()), gen::fill128()).prop_map(|(df, fill)| match df { 11 => bits::df11(0, 5, 0), 17 | 18 => bits::es(df, 5, 0, fill as u64 & ((1u64 << 56) - 1)), _ => bits::ap_frame(df, 0, fill) }.hex().into_bytes()),
        // other DF values
        2 => (prop_oneof![1u32..4, 6u32..11, 12u32..16, Just(19u32), 22u32..32], gen::fill128(), 0usize..4).prop_map(|(df, fill, a)| {
            let len = if df < 16 { 56 } else { 112 };
            let mut f = Frame::new(len);
            f.bits = fill & ((1u128 << len) - 1);
            f.set(1, 5, df as u64);
            f.set(9, 32, gen::POOL[a] as u64);
            f.hex().into_bytes()
        }),
        // parity-failed squitters
        2 => ((0usize..4).prop_flat_map(|a| alphabet::frame_any(gen::POOL[a])).prop_filter("squitter", |f| matches!(f.df(), 11 | 17 | 18)), 6u32..56).prop_map(|(mut f, b)| { f.flip(b); f.hex().into_bytes() }),
        3 => gen::junk_line(),
    ]
    .boxed()
}

fn case_strategy(max: usize) -> BoxedStrategy<Case> {
    let filt = prop_oneof![
        2 => Just(None),
        5 => proptest::sample::subsequence(NINE.to_vec(), 1..7).prop_map(Some),
        1 => proptest::collection::vec(prop_oneof![2 => 0u32..32, 2 => 32u32..64, 1 => Just(99u32), 1 => Just(4u32 + 32), 1 => Just(17u32 + 32)], 1..5).prop_map(Some),
    ];
    // a value may be given more than once in -f
    let filt = (filt, proptest::collection::vec(any::<prop::sample::Index>(), 0..3)).prop_map(|(f, dups)| {
        f.map(|mut v| {
            for d in dups {
                if !v.is_empty() {
                    let x = v[d.index(v.len())];
                    v.push(x);
                }
            }
            v
        })
    });
    // lines may carry a 12-digit receiver timestamp and decoration
    let lines = proptest::collection::vec((line_strategy(), 0u8..6, proptest::collection::vec(0u8..16, 12)), 3..max).prop_map(|v| {
        v.into_iter()
            .map(|(l, deco, ts)| {
                let is_frame = (l.len() == 14 || l.len() == 28) && l.iter().all(|b| b.is_ascii_hexdigit());
                if !is_frame {
                    return l;
                }
                let t: String = ts.iter().map(|x| std::char::from_digit(*x as u32, 16).unwrap().to_ascii_uppercase()).collect();
                let body = String::from_utf8_lossy(&l).to_string();
                match deco {
                    0 => format!("*{};", body).into_bytes(),
                    1 => format!("@{}{};", t, body).into_bytes(),
                    2 => format!("{}{}", t, body).into_bytes(),
                    _ => l,
                }
            })
            .collect::<Vec<_>>()
    });
    (lines, filt, any::<bool>(), any::<bool>(), prop_oneof![3 => Just(1_000_000i64), 1 => Just(0i64)], prop_oneof![2 => Just(None), 1 => proptest::sample::subsequence(NINE.to_vec(), 1..4).prop_map(Some)]).prop_map(|(lines, filter, count, u, d, m)| Case { lines, filter, count, u, d, m }).boxed()
}

fn frame_of(line: &[u8]) -> Option<Frame> {
    let s = std::str::from_utf8(line).ok()?;
    let d: String = s.chars().filter(|c| c.to_digit(16).is_some()).map(|c| c.to_ascii_uppercase()).collect();
    frame_of_digits(&d)
}

fn join(lines: &[&Vec<u8>]) -> Vec<u8> {
    let mut b = Vec::new();
    for l in lines {
        b.extend_from_slice(l);
        b.push(b'\n');
    }
    b
}

pub fn expected_counts(c: &Case) -> BTreeMap<u32, u64> {
    let mut m = BTreeMap::new();
    for l in &c.lines {
        if let Some(f) = frame_of(l) {
            let admitted = c.filter.as_ref().map(|x| x.contains(&f.df())).unwrap_or(true);
            if NINE.contains(&f.df()) && f.address() != 0 && admitted {
                *m.entry(f.df()).or_insert(0) += 1;
            }
        }
    }
    m
}

fn check_filter(c: &Case) -> Result<(), String> {
    let o1 = Opts { f: c.filter.clone(), u: c.u, d: c.d, m: c.m.clone(), ..Opts::default() };
    let o2 = Opts { f: None, u: c.u, d: c.d, ..Opts::default() };
    let all: Vec<&Vec<u8>> = c.lines.iter().collect();
    let kept: Vec<&Vec<u8>> = c
        .lines
        .iter()
        .filter(|l| match (frame_of(l), &c.filter) {
            (Some(f), Some(flt)) => flt.contains(&f.df()),
            (Some(_), None) => true,
            (None, _) => accepted(l),
        })
        .collect();
    let t1 = run::new_table();
    run::run_bytes(&o1, &t1, &join(&all)).map_err(|e| format!("reader failed: {:?}", e))?;
    let t2 = run::new_table();
    run::run_bytes(&o2, &t2, &join(&kept)).map_err(|e| format!("reader failed: {:?}", e))?;
    // frames excluded by the filter leave the table untouched - time stamps included
    if let (Some(flt), true) = (&c.filter, c.d > 0) {
        let excl: Vec<&Vec<u8>> = c.lines.iter().filter(|l| frame_of(l).map(|f| !flt.contains(&f.df())).unwrap_or(false)).collect();
        if !excl.is_empty() {
            let s1 = run::snapshot(&t1);
            run::run_bytes(&o1, &t1, &join(&excl)).map_err(|e| format!("reader failed: {:?}", e))?;
            let s2 = run::snapshot(&t1);
            if s1 != s2 {
                return Err(format!("frames excluded by -f {:?} changed the table: {}", flt, run::table_diff(&s1, &s2).iter().take(5).cloned().collect::<Vec<_>>().join("; ")));
            }
        }
    }
    let a = run::no_clock(&run::snapshot(&t1));
    let b = run::no_clock(&run::snapshot(&t2));
    if a != b {
        return Err(format!("table with -f {:?} (delete_after {}) differs from the table of the admitted frames alone: {}", c.filter, c.d, run::table_diff(&b, &a).iter().take(5).cloned().collect::<Vec<_>>().join("; ")));
    }
    Ok(())
}

fn parse_counter_line(l: &str) -> Option<Vec<(u32, u64)>> {
    let mut v = Vec::new();
    for tok in l.split_whitespace() {
        let rest = tok.strip_prefix("DF")?;
        let (a, b) = rest.split_once(':')?;
        v.push((a.parse().ok()?, b.parse().ok()?));
    }
    Some(v)
}

fn judge_output(c: &Case, out: &str, via: &str) -> Result<(), String> {
    let (_, refreshes) = cli::parse_refreshes(out);
    let want = expected_counts(c);
    let any_display = c.lines.iter().any(|l| frame_of(l).map(|f| c.filter.as_ref().map(|x| x.contains(&f.df())).unwrap_or(true) && (NINE.contains(&f.df()) && f.address() != 0)).unwrap_or(false));
    let Some(last) = refreshes.last() else {
        if any_display {
            return Err(format!("{}: no refresh was printed although admitted frames arrived (update=-1)", via));
        }
        return Ok(());
    };
    if !c.count {
        if let Some(l) = &last.counter_line {
            if l.contains("DF") {
                return Err(format!("{}: a counter line {:?} is printed without -c", via, l));
            }
        }
        return Ok(());
    }
    let line = last.counter_line.clone().unwrap_or_default();
    let Some(got) = parse_counter_line(&line) else {
        return Err(format!("{}: cannot parse the counter line {:?}", via, line));
    };
    if !got.windows(2).all(|w| w[0].0 < w[1].0) {
        return Err(format!("{}: counter line {:?} is not in ascending DF order", via, line));
    }
    let gm: BTreeMap<u32, u64> = got.iter().cloned().collect();
    for df in NINE {
        let w = want.get(&df).copied().unwrap_or(0);
        let g = gm.get(&df).copied().unwrap_or(0);
        if w != g {
            return Err(format!("{}: counter line {:?} shows DF{}:{} but {} accepted, admitted frames of that format with non-zero address were fed (filter {:?})", via, line, df, g, w, c.filter));
        }
    }
    // a filtered-out DF must not be counted at all
    if let Some(f) = &c.filter {
        for (df, n) in &got {
            if !f.contains(df) && *n > 0 {
                return Err(format!("{}: counter line {:?} counts DF{} which -f {:?} excludes", via, line, df, f));
            }
        }
    }
    Ok(())
}

fn check_counters_inproc(c: &Case) -> Result<(), String> {
    let o = Opts { f: c.filter.clone(), u: c.u, c: c.count, i: vec!["".into()], upd: -1, m: c.m.clone(), ..Opts::default() };
    let all: Vec<&Vec<u8>> = c.lines.iter().collect();
    let t = run::new_table();
    let (r, out) = run::run_bytes_captured(&o, &t, &join(&all));
    r.map_err(|e| format!("reader failed: {:?}", e))?;
    judge_output(c, &out, "reader output")
}

fn check_counters_cli(c: &Case) -> Result<(), String> {
    let o = Opts { f: c.filter.clone(), u: c.u, c: c.count, i: vec!["A".into()], upd: -1, m: c.m.clone(), ..Opts::default() };
    let all: Vec<&Vec<u8>> = c.lines.iter().collect();
    let p = run::tmp_dir().join(format!("c16-{}.txt", std::process::id()));
    std::fs::write(&p, join(&all)).map_err(|e| e.to_string())?;
    let out = cli::run_file(true, &o, &p.to_string_lossy(), &[], true, Duration::from_secs(60)).map_err(|e| e.to_string())?;
    if out.timed_out {
        return Err("TIMEOUT".into());
    }
    if out.status != Some(0) {
        return Err(format!("CLI ended with {:?}/{:?}: {}", out.status, out.signal, out.stderr));
    }
    judge_output(c, &String::from_utf8_lossy(&out.stdout), "CLI")
}

fn classify(c: &mut Ctx, k: &Case) {
    let frames: Vec<Frame> = k.lines.iter().filter_map(|l| frame_of(l)).collect();
    let mut dfs: Vec<u32> = frames.iter().map(|f| f.df()).collect();
    dfs.sort();
    dfs.dedup();
    let excluded = k.filter.as_ref().map(|f| frames.iter().any(|x| !f.contains(&x.df()))).unwrap_or(false);
    let rejected = k.lines.iter().any(|l| frame_of(l).is_none());
    if dfs.len() >= 3 && excluded && rejected {
        c.nontrivial(k);
        c.class("nontrivial");
    } else {
        c.class("other");
    }
    if k.count { c.class("with_c"); }
    if k.d == 0 { c.class("delete_after_0"); }
    if k.filter.is_none() { c.class("no_filter"); }
}

/// 2^20 + 24 frames of one format through the CLI: the count must still be exact (only the end of the output is read)
fn million_case() -> Result<(), String> {
    let n = (1usize << 20) + 24;
    let f17 = bits::es(17, 5, 0x4840D6, bits::me_raw(28, 7)).hex();
    let p = run::tmp_dir().join("c16-million.txt");
    let mut data = String::with_capacity(n * 29);
    for _ in 0..n {
        data.push_str(&f17);
        data.push('\n');
    }
    let o = Opts { c: true, i: vec!["x".into()], upd: -1, ..Opts::default() };
    std::fs::write(&p, data).map_err(|e| e.to_string())?;
    let out = cli::run_file(true, &o, &p.to_string_lossy(), &[], true, Duration::from_secs(900)).map_err(|e| e.to_string());
    let _ = std::fs::remove_file(&p);
    let out = out?;
    if out.timed_out {
        return Ok(());
    }
    let tail = String::from_utf8_lossy(&out.stdout[out.stdout.len().saturating_sub(4000)..]).to_string();
    let want = format!("DF17:{}", n);
    let last = tail.lines().rev().find(|l| l.contains("DF17:")).unwrap_or("").trim().to_string();
    if last != want {
        return Err(format!("{} DF17 frames were fed with -c; the last counter line reads {:?}, expected {:?}", n, last, want));
    }
    Ok(())
}

fn run(c: &mut Ctx) {
    let cases = c.tier.pick(36_000, 600_000);
    let r = c.proptest(cases, case_strategy(70), |c, k, counting| {
        check_filter(k)?;
        check_counters_inproc(k)?;
        if counting {
            c.eval(2);
            classify(c, k);
            if c.want_sample() && k.lines.len() < 12 && k.filter.is_some() && k.count {
                c.sample(json!({"filter": k.filter, "count": k.count, "lines": k.lines.iter().map(|l| String::from_utf8_lossy(l).chars().take(40).collect::<String>()).collect::<Vec<_>>(), "expected_counts": expected_counts(k)}));
            }
        }
        Ok(())
    });
    if let Some((k, m)) = r {
        c.fail(m, "c16:filter_count", json!({"kind":"case","k":k,"cli":false}));
        return;
    }
    // volume: 70 000 frames of one format (more than 2^16) - the count must still be exact
    if c.worker == 0 {
        let f17 = bits::es(17, 5, 0x4840D6, bits::me_raw(28, 7)).hex().into_bytes();
        let f5 = bits::df5(0xA12345, 0x0808, 0).hex().into_bytes();
        let mut lines: Vec<Vec<u8>> = vec![f5.clone(), f5.clone(), f5];
        lines.extend(std::iter::repeat(f17).take(70_000));
        let k = Case { lines, filter: None, count: true, u: false, d: 1_000_000, m: None };
        c.eval(1);
        c.class("volume_70000_frames_of_one_format");
        if let Err(m) = check_counters_inproc(&k) {
            c.fail(format!("70 000 DF17 frames and 3 DF5 frames: {}", m), "c16:volume", json!({"kind":"volume"}));
            return;
        }
    }
    if c.worker == 1 % c.nworkers && c.tier == crate::ctx::Tier::Thorough {
        c.eval(1);
        c.class("volume_2^20_frames_of_one_format");
        if let Err(m) = million_case() {
            c.fail(m, "c16:volume", json!({"kind":"volume_million"}));
            return;
        }
    }
    let cases = c.tier.pick(320, 6_000);
    let r = c.proptest(cases, case_strategy(40), |c, k, counting| {
        match check_counters_cli(k) {
            Ok(()) => {}
            Err(e) if e == "TIMEOUT" => {
                c.inconclusive("CLI timeout");
                return Ok(());
            }
            Err(e) => return Err(e),
        }
        if counting {
            c.eval(1);
            c.class("cli_run");
            classify(c, k);
        }
        Ok(())
    });
    if let Some((k, m)) = r {
        c.fail(m, "c16:filter_count", json!({"kind":"case","k":k,"cli":true}));
    }
}

fn replay(c: &mut Ctx, case: &Value) {
    c.eval(1);
    if case["kind"].as_str() == Some("volume_million") {
        if let Err(m) = million_case() {
            c.fail(m, "c16:volume", case.clone());
        }
        return;
    }
    if case["kind"].as_str() == Some("volume") {
        let f17 = bits::es(17, 5, 0x4840D6, bits::me_raw(28, 7)).hex().into_bytes();
        let f5 = bits::df5(0xA12345, 0x0808, 0).hex().into_bytes();
        let mut lines: Vec<Vec<u8>> = vec![f5.clone(), f5.clone(), f5];
        lines.extend(std::iter::repeat(f17).take(70_000));
        if let Err(m) = check_counters_inproc(&Case { lines, filter: None, count: true, u: false, d: 1_000_000, m: None }) {
            c.fail(m, "c16:volume", case.clone());
        }
        return;
    }
    let Ok(k) = serde_json::from_value::<Case>(case["k"].clone()) else { return c.inconclusive("bad replay") };
    let r = if case["cli"].as_bool().unwrap_or(false) { check_counters_cli(&k) } else { check_filter(&k).and_then(|_| check_counters_inproc(&k)) };
    if let Err(m) = r {
        if m != "TIMEOUT" {
            c.fail(m, "c16:filter_count", case.clone());
        }
    }
}
