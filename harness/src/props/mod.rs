use crate::ctx::{Ctx, Tier};
use serde_json::Value;

pub mod c01;
pub mod c02;
pub mod c03;
pub mod c04;
pub mod c05;
pub mod c06;
pub mod c07;
pub mod c08;
pub mod c09;
pub mod c10;
pub mod c11;
pub mod c12;
pub mod c13;
pub mod c14;
pub mod c15;
pub mod c16;
pub mod c17;
pub mod c18;
pub mod c19;

pub struct PropSpec {
    pub id: &'static str,
    pub level: &'static str,
    pub rule: &'static str,
    pub assumptions: &'static [&'static str],
    pub workers: u32,
    /// also run every worker from the binary built without overflow checks (C01)
    pub also_nochk: bool,
    /// libFuzzer target run by the thorough tier (its saved corpus is replayed in process by the quick tier)
    pub fuzz_target: Option<&'static str>,
    pub quick_budget_s: u64,
    pub thorough_budget_s: u64,
    pub min_nontrivial_quick: u64,
    pub min_nontrivial_thorough: u64,
    pub run: fn(&mut Ctx),
    pub replay: fn(&mut Ctx, &Value),
}

impl PropSpec {
    pub fn min_nontrivial(&self, tier: Tier) -> u64 {
        match tier {
            Tier::Quick => self.min_nontrivial_quick,
            Tier::Thorough => self.min_nontrivial_thorough,
        }
    }
}

/// replays every saved input of a fuzz target's corpus (committed seeds, regressions) through the in-target oracle
pub fn replay_fuzz_corpus(c: &mut Ctx, target: &str, accept: &[&str]) {
    let root = std::path::PathBuf::from(std::env::var("VERIF_ROOT").unwrap_or_else(|_| "/verif".into()));
    let mut files: Vec<std::path::PathBuf> = Vec::new();
    for d in [root.join("corpus").join(target), root.join("corpus").join("regress")] {
        if let Ok(rd) = std::fs::read_dir(&d) {
            files.extend(rd.filter_map(|e| e.ok()).map(|e| e.path()).filter(|p| p.is_file() && (d.ends_with(target) || p.file_name().map(|n| n.to_string_lossy().starts_with(target)).unwrap_or(false))));
        }
    }
    files.sort();
    for (i, f) in files.iter().enumerate() {
        if !c.mine(i as u64) {
            continue;
        }
        let Ok(data) = std::fs::read(f) else { continue };
        c.eval(1);
        c.class("fuzz_corpus_replay");
        let r = if target == "fz_line" { crate::fuzz_entry::check_line_bytes(&data) } else { crate::fuzz_entry::check_stream_bytes(&data) };
        if let Err((prop, msg)) = r {
            if accept.contains(&prop.as_str()) && !c.failed() {
                c.fail(format!("saved fuzz input {}: [{}] {}", f.display(), prop, msg), "fuzz:corpus", fuzz_case(target, &data));
            }
        }
    }
}

pub fn fuzz_case(target: &str, data: &[u8]) -> Value {
    serde_json::json!({"kind": "fuzz_artifact", "target": target, "hex": data.iter().map(|b| format!("{:02x}", b)).collect::<String>()})
}

/// replay of a fuzz artifact case; returns Some(result) when `case` is one
pub fn replay_fuzz_case(case: &Value) -> Option<Result<(), (String, String)>> {
    if case.get("kind").and_then(|k| k.as_str()) != Some("fuzz_artifact") {
        return None;
    }
    let hex = case["hex"].as_str().unwrap_or("");
    let data: Vec<u8> = (0..hex.len() / 2).filter_map(|i| u8::from_str_radix(&hex[2 * i..2 * i + 2], 16).ok()).collect();
    Some(if case["target"].as_str() == Some("fz_line") { crate::fuzz_entry::check_line_bytes(&data) } else { crate::fuzz_entry::check_stream_bytes(&data) })
}

pub fn all() -> Vec<PropSpec> {
    vec![c01::spec(), c02::spec(), c03::spec(), c04::spec(), c05::spec(), c06::spec(), c07::spec(), c08::spec(), c09::spec(), c10::spec(), c11::spec(), c12::spec(), c13::spec(), c14::spec(), c15::spec(), c16::spec(), c17::spec(), c18::spec(), c19::spec()]
}

pub fn find(id: &str) -> Option<PropSpec> {
    all().into_iter().find(|p| p.id == id)
}
