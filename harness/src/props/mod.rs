use crate::ctx::{Ctx, Tier};
use serde_json::Value;

pub mod c01;
pub mod c02;
pub mod c03;
pub mod c04;
pub mod c05;
pub mod c06;
pub mod c07;
pub mod c08;
pub mod c09;
pub mod c10;
pub mod c11;
pub mod c12;
pub mod c13;
pub mod c14;
pub mod c15;
pub mod c16;
pub mod c17;
pub mod c19;

pub struct PropSpec {
    pub id: &'static str,
    pub level: &'static str,
    pub rule: &'static str,
    pub assumptions: &'static [&'static str],
    pub workers: u32,
    /// also run every worker from the binary built without overflow checks (C01)
    pub also_nochk: bool,
    pub quick_budget_s: u64,
    pub thorough_budget_s: u64,
    pub min_nontrivial_quick: u64,
    pub min_nontrivial_thorough: u64,
    pub run: fn(&mut Ctx),
    pub replay: fn(&mut Ctx, &Value),
}

impl PropSpec {
    pub fn min_nontrivial(&self, tier: Tier) -> u64 {
        match tier {
            Tier::Quick => self.min_nontrivial_quick,
            Tier::Thorough => self.min_nontrivial_thorough,
        }
    }
}

pub fn all() -> Vec<PropSpec> {
    vec![c01::spec(), c02::spec(), c03::spec(), c04::spec(), c05::spec(), c06::spec(), c07::spec(), c08::spec(), c09::spec(), c10::spec(), c11::spec(), c12::spec(), c13::spec(), c14::spec(), c15::spec(), c16::spec(), c17::spec(), c19::spec()]
}

pub fn find(id: &str) -> Option<PropSpec> {
    all().into_iter().find(|p| p.id == id)
}
