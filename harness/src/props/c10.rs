//! C10 — Comm-B data are shown only when valid, advertised and correctly decoded.

use super::PropSpec;
use crate::alphabet;
use crate::bits::{self, Frame};
use crate::ctx::Ctx;
use crate::gen::{self, R40};
use crate::refdec::*;
use crate::run::{self, Opts, Snap};
use proptest::prelude::*;
use serde::{Deserialize, Serialize};
use serde_json::{json, Value};

pub fn spec() -> PropSpec {
    PropSpec {
        id: "C10",
        level: "exploration",
        rule: "generated histories for one aircraft over {DF11 CA 0..7, DF17 with CA in the header, DF20/DF21 whose MB is: BDS 1,7 with a generated advertised set; 2,0; 3,0; 1,0; 4,0 / 5,0 / 6,0 synthesised from physical values over the full ranges, both signs and the boundary of every plausibility limit; the same with one status bit cleared, one reserved bit set or one value field zeroed; random 56 bits}, with -R / -U generated. A model tracks the gate (closed / open / undetermined) and the advertised set. Soundness after every DF20/21 step: a parameter group (4,0 | 5,0 | 6,0 | 2,0 | 3,0 | 1,7) may change only if the gate is not closed, the register is advertised (or -R), the MB has the register's status bits set and reserved bits zero, and the new values equal the Doc 9871 decoding; at most one group changes. Completeness: gate open + advertised (or -R) + MB a fully valid register strictly inside the plausibility limits and not also satisfying (leniently) an earlier register => the group shows exactly the generated values. Non-trivial = completeness cases not shadowed, and soundness steps with closed gate and a fully valid register; distinct by hash of (history prefix, step)",
        assumptions: &[
            "Doc 9871 field layouts of BDS 1,7 / 2,0 / 3,0 / 4,0 / 5,0 / 6,0; signed fields accept floor or truncation",
            "selected altitude may be the MCP/FCU or the FMS value; vertical rate may be the barometric or the inertial one",
            "gate is 'undetermined' (nothing asserted about it) when capability >= 4 was seen only in a DF17 header, or a later frame carried a capability < 4",
            "BDS 4,0 soundness requires the three data status bits (MCP, FMS, baro) and the reserved bits 40-47, 52-53; completeness is asserted only when the two mode/source status bits are set as well",
        ],
        workers: 16,
        also_nochk: false,
        fuzz_target: None,
        quick_budget_s: 900,
        thorough_budget_s: 3600,
        min_nontrivial_quick: 20_000,
        min_nontrivial_thorough: 400_000,
        run,
        replay,
    }
}

const ME: u32 = 0x4840D6;

#[derive(Clone, Debug, Serialize, Deserialize, PartialEq, Eq, Hash)]
pub enum Step {
    Df11(u32),
    Df17(u32, u64),          // header CA, ME
    CommB(bool, u32, u64, String), // df21?, 13-bit code, MB, generator label
    /// DF18: its 3-bit field after the DF is a control field, not a transponder capability
    Df18(u32, u64),
    /// a 112-bit frame of another format (DF19, 22..31) whose bits 9-32 carry the address and bits 33-88 a register
    OtherLong(u32, u64, String),
}

#[derive(Clone, Debug, Serialize, Deserialize, PartialEq, Eq, Hash)]
pub struct Hist {
    pub opts: Opts,
    pub steps: Vec<Step>,
}

fn frame_of(s: &Step) -> Frame {
    match s {
        Step::Df11(ca) => bits::df11(ME, *ca, 0),
        Step::Df17(ca, me) => bits::es(17, *ca, ME, *me),
        Step::CommB(d21, code, mb, _) => {
            if *d21 { bits::df21(ME, *code, *mb, 0) } else { bits::df20(ME, *code, *mb, 0) }
        }
        Step::Df18(cf, me) => bits::es(18, *cf, ME, *me),
        Step::OtherLong(df, mb, _) => {
            let mut f = Frame::long();
            f.set(1, 5, *df as u64);
            f.set(9, 32, ME as u64);
            f.set(33, 88, *mb);
            f
        }
    }
}

// ---- MB generators ---------------------------------------------------------------------------

fn r40_full() -> impl Strategy<Value = R40> {
    gen::r40().prop_map(|mut r| {
        r.mode_status = 1;
        r.modes = r.modes.max(1);
        r.src_status = 1;
        r.src = r.src.max(1);
        r
    })
}

fn mb_strategy() -> BoxedStrategy<(u64, String)> {
    let corrupt = |mb: u64, bit: u32, set: bool| {
        let mut m = mb;
        mb_set(&mut m, bit, bit, set as u64);
        m
    };
    prop_oneof![
        3 => (any::<bool>(), any::<bool>(), any::<bool>(), any::<u32>()).prop_map(|(a, b, c, o)| (gen::mb17(a, b, c, o), "bds17".to_string())),
        1 => (any::<u32>(), 29u32..=56).prop_map(|(o, bit)| { let mut m = gen::mb17(true, true, true, o); mb_set(&mut m, bit, bit, 1); (m, "bds17_reserved_set".to_string()) }),
        2 => gen::chars8().prop_map(|c| (gen::mb20(c), "bds20".to_string())),
        1 => gen::fill64().prop_map(|f| ((0x30u64 << 48) | (f & 0xFFFF_FFFF_FFFF), "bds30".to_string())),
        1 => gen::fill64().prop_map(|f| ((0x10u64 << 48) | (f & 0xFFFF_FFFF_FFFF), "bds10".to_string())),
        4 => r40_full().prop_map(|r| (gen::mb40(&r), "bds40_full".to_string())),
        1 => gen::r40().prop_map(|r| (gen::mb40(&r), "bds40".to_string())),
        5 => gen::r50_plausible().prop_map(|r| (gen::mb50(&r), "bds50_plausible".to_string())),
        5 => gen::r60_plausible().prop_map(|r| (gen::mb60(&r), "bds60_plausible".to_string())),
        // boundary / implausible values
        1 => (gen::r50_plausible(), prop_oneof![Just(284i32), Just(285), Just(-285), Just(400)], prop_oneof![Just(300u32), Just(301), Just(400)], prop_oneof![Just(250u32), Just(251), Just(400)]).prop_map(|(mut r, roll, gs, tas)| { r.roll = roll; r.gs = gs; r.tas = tas; (gen::mb50(&r), "bds50_boundary".to_string()) }),
        1 => (gen::r60_plausible(), prop_oneof![Just(250u32), Just(251), Just(400)], prop_oneof![Just(187i32), Just(188), Just(-188), Just(-187), Just(300)]).prop_map(|(mut r, mach, rate)| { r.mach = mach; r.baro = rate; r.ivv = -rate; (gen::mb60(&r), "bds60_boundary".to_string()) }),
        // one status bit cleared
        1 => (r40_full(), prop_oneof![Just(1u32), Just(14), Just(27)]).prop_map(move |(r, b)| (corrupt(gen::mb40(&r), b, false), "bds40_status_cleared".to_string())),
        1 => (gen::r50_plausible(), prop_oneof![Just(1u32), Just(12), Just(24), Just(35), Just(46)]).prop_map(move |(r, b)| (corrupt(gen::mb50(&r), b, false), "bds50_status_cleared".to_string())),
        1 => (gen::r60_plausible(), prop_oneof![Just(1u32), Just(13), Just(24), Just(35), Just(46)]).prop_map(move |(r, b)| (corrupt(gen::mb60(&r), b, false), "bds60_status_cleared".to_string())),
        // one reserved bit set (4,0)
        1 => (r40_full(), prop_oneof![40u32..=47, 52u32..=53]).prop_map(move |(r, b)| (corrupt(gen::mb40(&r), b, true), "bds40_reserved_set".to_string())),
        // one value field zeroed
        1 => (gen::r50_plausible(), 0usize..5).prop_map(|(r, k)| { let mut m = gen::mb50(&r); let (a, b) = [(2, 11), (13, 23), (25, 34), (36, 45), (47, 56)][k]; mb_set(&mut m, a, b, 0); (m, "bds50_field_zero".to_string()) }),
        1 => (gen::r60_plausible(), 0usize..5).prop_map(|(r, k)| { let mut m = gen::mb60(&r); let (a, b) = [(2, 12), (14, 23), (25, 34), (36, 45), (47, 56)][k]; mb_set(&mut m, a, b, 0); (m, "bds60_field_zero".to_string()) }),
        1 => (r40_full(), 0usize..3).prop_map(|(r, k)| { let mut m = gen::mb40(&r); let (a, b) = [(2, 13), (15, 26), (28, 39)][k]; mb_set(&mut m, a, b, 0); (m, "bds40_field_zero".to_string()) }),
        // satisfies the rules of 1,7 (bit 7, bits 29-56 zero) and of 4,0 (status bits 1, 14, 27, fields non-zero) at once
        1 => (1u64..4096, 1u64..4096).prop_map(|(mcp, fms)| {
            let mut m = 0u64;
            mb_set(&mut m, 1, 1, 1); mb_set(&mut m, 2, 13, mcp | 0x40); // bit 7 lies inside the MCP field
            mb_set(&mut m, 14, 14, 1); mb_set(&mut m, 15, 26, fms);
            mb_set(&mut m, 27, 27, 1); mb_set(&mut m, 28, 28, 1);
            (m, "bds17_and_40".to_string())
        }),
        3 => any::<u64>().prop_map(|f| (f & ((1u64 << 56) - 1), "random".to_string())),
        1 => Just((0u64, "zero".to_string())),
    ]
    .boxed()
}

fn step_strategy() -> BoxedStrategy<Step> {
    prop_oneof![
        3 => prop_oneof![3 => 4u32..8, 2 => 0u32..4].prop_map(Step::Df11),
        2 => (0u32..8, alphabet::me_any()).prop_map(|(ca, me)| Step::Df17(ca, me)),
        1 => (0u32..8, gen::vel_valid()).prop_map(|(ca, v)| Step::Df17(ca, bits::me_velocity(&v))),
        12 => (any::<bool>(), prop_oneof![gen::ac13_valid(), 0u32..8192], mb_strategy()).prop_map(|(d, code, (mb, label))| Step::CommB(d, code, mb, label)),
        1 => (0u32..8, alphabet::me_any()).prop_map(|(cf, me)| Step::Df18(cf, me)),
        1 => (prop_oneof![Just(19u32), 22u32..32], mb_strategy()).prop_map(|(df, (mb, label))| Step::OtherLong(df, mb, label)),
    ]
    .boxed()
}

fn hist_strategy() -> BoxedStrategy<Hist> {
    // typical life: capability, capability report, data replies - but every order is generated
    let opts = (any::<bool>(), prop::bool::weighted(0.3)).prop_map(|(u, r)| Opts::quiet().with_u(u).with_r(r));
    (opts, proptest::collection::vec(step_strategy(), 2..14)).prop_map(|(opts, steps)| Hist { opts, steps }).boxed()
}

// ---- model ------------------------------------------------------------------------------------

#[derive(Clone, Copy, Debug, PartialEq, Eq)]
pub enum Gate {
    Closed,
    Open,
    Maybe,
}
#[derive(Clone, Copy, Debug, PartialEq, Eq)]
pub enum Tri {
    No,
    Yes,
    Maybe,
}

pub struct Model {
    pub relaxed: bool,
    pub any_ge4: bool,
    pub last11: Option<u32>,
    pub df17_lt4_since11: bool,
    pub adv: [Tri; 3], // 4,0 5,0 6,0
}
impl Model {
    pub fn new(relaxed: bool) -> Model {
        Model { relaxed, any_ge4: false, last11: None, df17_lt4_since11: false, adv: [Tri::No; 3] }
    }
    pub fn on_df11(&mut self, ca: u32) {
        self.last11 = Some(ca);
        self.df17_lt4_since11 = false;
        if ca >= 4 {
            self.any_ge4 = true;
        }
    }
    pub fn on_df17(&mut self, ca: u32) {
        if ca >= 4 {
            self.any_ge4 = true;
        } else {
            self.df17_lt4_since11 = true;
        }
    }
    /// bookkeeping of the advertised set after a DF20/21 reply was processed
    pub fn on_commb(&mut self, mb: u64, created: bool) {
        if let Some(a) = is_bds17(mb) {
            if mb >> 48 != 0x10 && mb >> 48 != 0x20 && mb >> 48 != 0x30 && !created {
                let new = [a.b40, a.b50, a.b60];
                match self.gate() {
                    Gate::Open => {
                        for k in 0..3 {
                            self.adv[k] = if new[k] { Tri::Yes } else { Tri::No };
                        }
                    }
                    Gate::Maybe => {
                        for k in 0..3 {
                            let n = if new[k] { Tri::Yes } else { Tri::No };
                            if self.adv[k] != n {
                                self.adv[k] = Tri::Maybe;
                            }
                        }
                    }
                    Gate::Closed => {}
                }
            }
        }
    }
    pub fn gate(&self) -> Gate {
        if self.relaxed {
            return Gate::Open;
        }
        if !self.any_ge4 {
            return Gate::Closed;
        }
        match self.last11 {
            Some(ca) if ca >= 4 && !self.df17_lt4_since11 => Gate::Open,
            _ => Gate::Maybe,
        }
    }
}

fn group_vals(s: &Snap) -> [String; 6] {
    [
        format!("{:?}/{:?}", s.selected_altitude, s.baro_setting),
        format!("{:?}/{:?}/{:?}/{:?}/{:?}", s.roll, s.track, s.tar, s.grspeed, s.tas),
        format!("{:?}/{:?}/{:?}/{:?}", s.heading, s.ias, s.mach, s.vrate),
        format!("{:?}", s.ais),
        format!("{:?}", s.threat),
        format!("{}/{:?}", s.cap_flags, s.cap_b),
    ]
}
const GROUP_NAMES: [&str; 6] = ["BDS 4,0", "BDS 5,0", "BDS 6,0", "BDS 2,0", "BDS 3,0", "BDS 1,7"];

fn lenient_40(mb: u64) -> bool {
    mb_get(mb, 1, 1) == 1 && mb_get(mb, 14, 14) == 1 && mb_get(mb, 27, 27) == 1 && mb_get(mb, 40, 47) == 0 && mb_get(mb, 52, 53) == 0
}
fn lenient_50(mb: u64) -> bool {
    if !bds50_status(mb) {
        return false;
    }
    let nz = mb_get(mb, 2, 11) != 0 && mb_get(mb, 13, 23) != 0 && mb_get(mb, 25, 34) != 0 && mb_get(mb, 36, 45) != 0 && mb_get(mb, 47, 56) != 0;
    let d = bds50_decode(mb);
    nz && d.roll.abs() <= 51.0 && d.gs <= 604 && d.tas <= 504 && (d.gs as i64 - d.tas as i64).abs() <= 204
}

pub fn default_snap() -> Snap {
    Snap::of(&squitterator::Plane::new())
}

/// soundness of one Comm-B step; returns Err on violation
pub fn soundness(m: &Model, mb: u64, before: &Snap, after: &Snap, frame: &Frame) -> Result<Vec<usize>, String> {
    let gb = group_vals(before);
    let ga = group_vals(after);
    let changed: Vec<usize> = (0..6).filter(|&i| gb[i] != ga[i]).collect();
    if changed.is_empty() {
        return Ok(changed);
    }
    let gate = m.gate();
    let ctx = format!("[DF{} frame {}, MB {:014X}]", frame.df(), frame.hex(), mb);
    if gate == Gate::Closed {
        return Err(format!("no capability >= 4 was ever recorded and -R is off, yet {} data changed: {} -> {} {}", GROUP_NAMES[changed[0]], gb[changed[0]], ga[changed[0]], ctx));
    }
    if changed.len() > 1 {
        return Err(format!("one reply changed two register groups: {} and {} {}", GROUP_NAMES[changed[0]], GROUP_NAMES[changed[1]], ctx));
    }
    let g = changed[0];
    if g <= 2 && is_bds17(mb).is_some() {
        return Err(format!("{} data changed ({} -> {}) although the MB field is a BDS 1,7 capability report, which takes precedence {}", GROUP_NAMES[g], gb[g], ga[g], ctx));
    }
    match g {
        0 => {
            if !m.relaxed && m.adv[0] == Tri::No {
                return Err(format!("BDS 4,0 data changed although the last capability report did not advertise 4,0 {}", ctx));
            }
            let Some(r) = bds40_strict(mb) else {
                return Err(format!("BDS 4,0 data changed ({} -> {}) but the MB field lacks a status bit or has a reserved bit set {}", gb[0], ga[0], ctx));
            };
            if !(after.selected_altitude == Some(r.mcp) || after.selected_altitude == Some(r.fms)) || after.baro_setting != Some(r.baro) {
                return Err(format!("BDS 4,0 decoded as {} but Doc 9871 gives MCP {} / FMS {} ft, baro {} mb {}", ga[0], r.mcp, r.fms, r.baro, ctx));
            }
        }
        1 => {
            if !m.relaxed && m.adv[1] == Tri::No {
                return Err(format!("BDS 5,0 data changed although the last capability report did not advertise 5,0 {}", ctx));
            }
            if !bds50_status(mb) {
                return Err(format!("BDS 5,0 data changed ({} -> {}) but a status bit of the MB field is 0 {}", gb[1], ga[1], ctx));
            }
            let d = bds50_decode(mb);
            let ok = after.roll.map(|v| int_ok(v as i64, d.roll)).unwrap_or(false)
                && after.track.map(|v| int_ok(v as i64, d.track)).unwrap_or(false)
                && after.tar.map(|v| int_ok(v as i64, d.rate)).unwrap_or(false)
                && after.grspeed == Some(d.gs)
                && after.tas == Some(d.tas);
            if !ok {
                return Err(format!("BDS 5,0 decoded as roll/track/rate/gs/tas = {} but Doc 9871 gives {:.3}/{:.3}/{:.3}/{}/{} {}", ga[1], d.roll, d.track, d.rate, d.gs, d.tas, ctx));
            }
        }
        2 => {
            if !m.relaxed && m.adv[2] == Tri::No {
                return Err(format!("BDS 6,0 data changed although the last capability report did not advertise 6,0 {}", ctx));
            }
            if !bds60_status(mb) {
                return Err(format!("BDS 6,0 data changed ({} -> {}) but a status bit of the MB field is 0 {}", gb[2], ga[2], ctx));
            }
            let d = bds60_decode(mb);
            let ok = after.heading.map(|v| int_ok(v as i64, d.hdg)).unwrap_or(false)
                && after.ias == Some(d.ias)
                && after.mach_f().map(|v| (v - d.mach).abs() < 1e-9).unwrap_or(false)
                && (after.vrate == Some(d.baro_rate) || after.vrate == Some(d.ivv));
            if !ok {
                return Err(format!("BDS 6,0 decoded as hdg/ias/mach/vrate = {} (mach {:?}) but Doc 9871 gives {:.3}/{}/{:.3}/{} or {} {}", ga[2], after.mach_f(), d.hdg, d.ias, d.mach, d.baro_rate, d.ivv, ctx));
            }
        }
        3 => {
            if mb >> 48 != 0x20 {
                return Err(format!("callsign changed ({} -> {}) by a reply whose MB does not start with BDS code 2,0 {}", gb[3], ga[3], ctx));
            }
            let want = callsign(&{
                let mut ch = [0u8; 8];
                for (i, c) in ch.iter_mut().enumerate() {
                    *c = mb_get(mb, 9 + 6 * i as u32, 14 + 6 * i as u32) as u8;
                }
                ch
            });
            if after.ais.clone().unwrap_or_default() != want {
                return Err(format!("BDS 2,0 callsign {:?}, expected {:?} {}", after.ais, want, ctx));
            }
        }
        4 => {
            if mb >> 48 != 0x30 {
                return Err(format!("ACAS threat flag changed by a reply whose MB does not start with BDS code 3,0 {}", ctx));
            }
            let want = if mb_get(mb, 28, 28) == 1 { Some('\u{2072}') } else if mb_get(mb, 9, 9) == 1 { Some('\u{2071}') } else { None };
            if after.threat != want {
                return Err(format!("BDS 3,0 threat flag {:?}, expected {:?} (MTE bit {}, first ARA bit {}) {}", after.threat, want, mb_get(mb, 28, 28), mb_get(mb, 9, 9), ctx));
            }
        }
        _ => {
            let Some(a) = is_bds17(mb) else {
                return Err(format!("advertised-register set changed ({} -> {}) but the MB is not a BDS 1,7 report (bit 7 clear or bits 29-56 not zero) {}", gb[5], ga[5], ctx));
            };
            if after.cap_b[1] != a.b40 || after.cap_b[3] != a.b50 || after.cap_b[4] != a.b60 || after.cap_flags as u64 != mb_get(mb, 1, 24) {
                return Err(format!("BDS 1,7 recorded as {} but the report says 4,0={} 5,0={} 6,0={} {}", ga[5], a.b40, a.b50, a.b60, ctx));
            }
        }
    }
    Ok(changed)
}

/// completeness expectation of one Comm-B step: Some(group index) when the model demands a decode
fn must_decode(m: &Model, mb: u64, label: &str) -> Option<usize> {
    if m.gate() != Gate::Open {
        return None;
    }
    if mb >> 48 == 0x10 || mb >> 48 == 0x20 || mb >> 48 == 0x30 || is_bds17(mb).is_some() {
        return None;
    }
    let bits25_28_zero_17ish = mb_get(mb, 7, 7) == 1 && mb_get(mb, 29, 56) == 0;
    if bits25_28_zero_17ish {
        return None;
    }
    match label {
        "bds40_full" => {
            if m.relaxed || m.adv[0] == Tri::Yes { Some(0) } else { None }
        }
        "bds50_plausible" => {
            if lenient_40(mb) {
                return None;
            }
            if m.relaxed || m.adv[1] == Tri::Yes { Some(1) } else { None }
        }
        "bds60_plausible" => {
            if lenient_40(mb) || lenient_50(mb) {
                return None;
            }
            // Mach strictly inside: raw <= 249
            if mb_get(mb, 25, 34) > 249 {
                return None;
            }
            if m.relaxed || m.adv[2] == Tri::Yes { Some(2) } else { None }
        }
        _ => None,
    }
}

fn completeness(g: usize, mb: u64, after: &Snap, frame: &Frame) -> Result<(), String> {
    let ctx = format!("[DF{} frame {}, MB {:014X}]", frame.df(), frame.hex(), mb);
    match g {
        0 => {
            let r = bds40_strict(mb).ok_or("internal: generator")?;
            if !((after.selected_altitude == Some(r.mcp) || after.selected_altitude == Some(r.fms)) && after.baro_setting == Some(r.baro)) {
                return Err(format!("a fully valid, advertised BDS 4,0 register (MCP {} ft, FMS {} ft, baro {} mb) was not decoded: row shows selected altitude {:?}, baro {:?} {}", r.mcp, r.fms, r.baro, after.selected_altitude, after.baro_setting, ctx));
            }
        }
        1 => {
            let d = bds50_decode(mb);
            let ok = after.roll.map(|v| int_ok(v as i64, d.roll)).unwrap_or(false)
                && after.track.map(|v| int_ok(v as i64, d.track)).unwrap_or(false)
                && after.tar.map(|v| int_ok(v as i64, d.rate)).unwrap_or(false)
                && after.grspeed == Some(d.gs)
                && after.tas == Some(d.tas);
            if !ok {
                return Err(format!("a fully valid, advertised BDS 5,0 register (roll {:.2}, track {:.2}, rate {:.3} deg/s, GS {}, TAS {}) was not decoded: row shows {:?}/{:?}/{:?}/{:?}/{:?} {}", d.roll, d.track, d.rate, d.gs, d.tas, after.roll, after.track, after.tar, after.grspeed, after.tas, ctx));
            }
        }
        _ => {
            let d = bds60_decode(mb);
            let ok = after.heading.map(|v| int_ok(v as i64, d.hdg)).unwrap_or(false)
                && after.ias == Some(d.ias)
                && after.mach_f().map(|v| (v - d.mach).abs() < 1e-9).unwrap_or(false)
                && (after.vrate == Some(d.baro_rate) || after.vrate == Some(d.ivv));
            if !ok {
                return Err(format!("a fully valid, advertised BDS 6,0 register (heading {:.2}, IAS {}, Mach {:.3}, rates {} / {} ft/min) was not decoded: row shows {:?}/{:?}/{:?}/{:?} {}", d.hdg, d.ias, d.mach, d.baro_rate, d.ivv, after.heading, after.ias, after.mach_f(), after.vrate, ctx));
            }
        }
    }
    Ok(())
}

#[derive(Default)]
struct Stats {
    completeness: Vec<(usize, u64)>,
    closed_valid: u64,
    shadowed: u64,
    steps: u64,
    maybe_gate: u64,
}

fn check(h: &Hist, stats: &mut Stats) -> Result<(), String> {
    let t = run::new_table();
    let mut m = Model::new(h.opts.r);
    for (i, s) in h.steps.iter().enumerate() {
        let f = frame_of(s);
        let before = run::snapshot(&t).get(&ME).cloned();
        run::run_lines(&h.opts, &t, &[f.hex()]).map_err(|e| format!("step {}: reader failed on {}: {:?}", i, f.hex(), e))?;
        let snap = run::snapshot(&t);
        let after = snap.get(&ME).cloned().ok_or_else(|| format!("step {}: no row after {}", i, f.hex()))?;
        stats.steps += 1;
        match s {
            Step::Df11(ca) => m.on_df11(*ca),
            Step::Df17(ca, _) => m.on_df17(*ca),
            Step::Df18(..) => {
                // a DF18 frame carries no transponder capability: the Comm-B groups must not move and the gate model is untouched
                if let Some(b) = &before {
                    let (gb, ga) = (group_vals(b), group_vals(&after));
                    if let Some(g) = (0..6).find(|&g| g != 1 && g != 2 && g != 3 && gb[g] != ga[g]) {
                        return Err(format!("step {}: DF18 frame {} changed {} data: {} -> {}", i, f.hex(), GROUP_NAMES[g], gb[g], ga[g]));
                    }
                }
            }
            Step::OtherLong(df, mb, _) => {
                let b = before.clone().unwrap_or_else(default_snap);
                let (gb, ga) = (group_vals(&b), group_vals(&after));
                if let Some(g) = (0..6).find(|&g| gb[g] != ga[g]) {
                    return Err(format!("step {}: a DF{} frame {} (not a Comm-B reply) changed {} data: {} -> {} [bits 33-88 {:014X}]", i, df, f.hex(), GROUP_NAMES[g], gb[g], ga[g], mb));
                }
            }
            Step::CommB(_, _, mb, label) => {
                let created = before.is_none();
                let b = before.clone().unwrap_or_else(default_snap);
                let changed = soundness(&m, *mb, &b, &after, &f).map_err(|e| format!("step {}: {}", i, e))?;
                if m.gate() == Gate::Maybe { stats.maybe_gate += 1; }
                if m.gate() == Gate::Closed && matches!(label.as_str(), "bds40_full" | "bds50_plausible" | "bds60_plausible" | "bds20" | "bds17") {
                    stats.closed_valid += 1;
                }
                if !created {
                    match must_decode(&m, *mb, label) {
                        Some(g) => {
                            completeness(g, *mb, &after, &f).map_err(|e| format!("step {}: {}", i, e))?;
                            stats.completeness.push((g, *mb));
                        }
                        None => {
                            if m.gate() == Gate::Open && matches!(label.as_str(), "bds50_plausible" | "bds60_plausible") && (lenient_40(*mb) || lenient_50(*mb)) {
                                stats.shadowed += 1;
                            }
                        }
                    }
                }
                m.on_commb(*mb, created);
                let _ = changed;
            }
        }
    }
    Ok(())
}

fn run(c: &mut Ctx) {
    let cases = c.tier.pick(120_000, 2_000_000);
    let r = c.proptest(cases, hist_strategy(), |c, h, counting| {
        let mut st = Stats::default();
        let r = check(h, &mut st);
        if counting {
            c.eval(st.steps);
            for (k, (g, mb)) in st.completeness.iter().enumerate() {
                c.nontrivial(&(h.opts.r, h.opts.u, g, mb, k));
                let neg = match g {
                    1 => mb_get(*mb, 2, 2) == 1 || mb_get(*mb, 36, 36) == 1,
                    2 => mb_get(*mb, 36, 36) == 1 || mb_get(*mb, 47, 47) == 1,
                    _ => false,
                };
                c.class(&format!("completeness_{}{}", GROUP_NAMES[*g].replace(' ', "_"), if neg { "_negative" } else { "" }));
            }
            if st.closed_valid > 0 {
                c.class_n("soundness_closed_gate_valid_register", st.closed_valid);
                c.nontrivial(&("closed", format!("{:?}", h)));
            }
            c.class_n("gate_undetermined_steps", st.maybe_gate);
            c.excluded_n("valid register also satisfies (leniently) an earlier register: shadowed, not asserted", st.shadowed);
            if r.is_ok() && c.want_sample() && !st.completeness.is_empty() {
                c.sample(json!({"opts": h.opts.label(), "steps": h.steps.iter().map(|s| match s { Step::Df11(ca) => format!("DF11 CA={}", ca), Step::Df17(ca, me) => format!("DF17 CA={} ME={:014X}", ca, me), Step::CommB(d, _, mb, l) => format!("DF{} MB={:014X} ({})", if *d {21} else {20}, mb, l), Step::Df18(cf, me) => format!("DF18 CF={} ME={:014X}", cf, me), Step::OtherLong(df, mb, l) => format!("DF{} bits33-88={:014X} ({})", df, mb, l) }).collect::<Vec<_>>()}));
            }
        }
        r
    });
    if let Some((h, m)) = r {
        c.fail(m, "c10:commb", json!({"kind":"hist","h":h}));
        return;
    }
    long_report_series(c);
    cli_option_order(c);
}

/// many capability reports in a row, then a register: the advertisement must still be known (255 / 256 / 257 / 300 / 512)
fn long_report_series(c: &mut Ctx) {
    for (i, n) in [255usize, 256, 257, 300, 512].into_iter().enumerate() {
        if !c.mine(i as u64) {
            continue;
        }
        for u in [false, true] {
            let mut steps = vec![Step::Df11(5)];
            for k in 0..n {
                steps.push(Step::CommB(k % 2 == 0, bits::ac13_q1(1000), gen::mb17(true, true, true, 0), "bds17".into()));
            }
            steps.push(Step::CommB(false, bits::ac13_q1(1000), gen::mb50(&gen::R50 { roll: -100, track: 300, gs: 210, rate: -40, tas: 205 }), "bds50_plausible".into()));
            steps.push(Step::CommB(true, 0, gen::mb60(&gen::R60 { hdg: -400, ias: 250, mach: 200, baro: -30, ivv: -30 }), "bds60_plausible".into()));
            let h = Hist { opts: Opts::quiet().with_u(u), steps };
            let mut st = Stats::default();
            c.eval(1);
            c.class("long_capability_report_series");
            c.nontrivial(&("series", n, u));
            if let Err(m) = check(&h, &mut st) {
                if !c.failed() {
                    c.fail(format!("after {} BDS 1,7 reports: {}", n, m), "c10:commb", json!({"kind":"hist","h":h}));
                }
            }
        }
    }
}

/// the order of -R and -U on the real command line must not matter: with -R a valid register is shown
fn cli_option_order(c: &mut Ctx) {
    if c.worker != 2 % c.nworkers {
        return;
    }
    let path = run::tmp_dir().join("c10-cli.txt");
    let lines = vec![
        bits::df11(ME, 0, 0).hex(), // capability 0: the gate is closed unless -R is given
        bits::df20(ME, bits::ac13_q1(1000), gen::mb40(&gen::R40 { mcp: 1438, fms: 1438, baro: 2132, mode_status: 1, modes: 2, src_status: 1, src: 2 }), 0).hex(),
    ];
    if std::fs::write(&path, lines.join("\n") + "\n").is_err() {
        return;
    }
    for args in [vec!["-R"], vec!["-R", "-U"], vec!["-U", "-R"], vec!["-RU"], vec!["-UR"], vec!["--relaxed", "--use-update-method"], vec!["--use-update-method", "--relaxed"]] {
        let out = std::process::Command::new(crate::cli::cli_path(true))
            .args(&args)
            .args(["-s", &path.to_string_lossy(), "--update=-1", "-i", "A", "-d", "100000"])
            .output();
        let Ok(out) = out else { continue };
        c.eval(1);
        c.class("cli_option_order");
        let text = String::from_utf8_lossy(&out.stdout).to_string();
        let (_, rs) = crate::cli::parse_refreshes(&text);
        let shown = rs.last().and_then(|r| r.rows.first().cloned()).and_then(|row| crate::render::cells("A", &row)).map(|cells| cells["ALT S"].trim().to_string());
        if (out.status.code() != Some(0) || shown.as_deref() != Some("23008")) && !c.failed() {
            c.fail(format!("command line {:?}: -R is given, so the fully valid BDS 4,0 register (selected altitude 23008 ft) must be shown; ALT S column shows {:?} (exit {:?})", args, shown, out.status.code()), "c10:cli", json!({"kind":"cli_order"}));
        }
    }
}

fn replay(c: &mut Ctx, case: &Value) {
    if case["kind"].as_str() == Some("cli_order") {
        c.worker = 2 % c.nworkers;
        cli_option_order(c);
        return;
    }
    c.eval(1);
    let Ok(h) = serde_json::from_value::<Hist>(case["h"].clone()) else { return c.inconclusive("bad replay") };
    let mut st = Stats::default();
    if let Err(m) = check(&h, &mut st) {
        c.fail(m, "c10:commb", case.clone());
    }
}
