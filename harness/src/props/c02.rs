//! C02 — a line is a frame iff its hex digits form a 56/112-bit frame of matching DF.

use super::PropSpec;
use crate::alphabet;
use crate::bits::{self, length_ok, parity_ok, Frame, NINE};
use crate::ctx::Ctx;
use crate::gen;
use crate::run::{self, Opts};
use proptest::prelude::*;
use serde::{Deserialize, Serialize};
use serde_json::{json, Value};

pub fn spec() -> PropSpec {
    PropSpec {
        id: "C02",
        level: "exploration",
        rule: "generated text lines: hex-digit strings of every count 0..64 (each count visited by a deterministic sweep), well-formed frames of all 32 DF values at the right and at the wrong length, with/without a 12-digit timestamp prefix, truncated/extended by 1..3 digits, parity-valid and parity-invalid squitters; decorated with characters that are not hex digits (a hand-picked list - ASCII punctuation incl. * @ ; : , blanks, tab, CR, g-z, G-Z, non-ASCII letters and digits - or any character U+0000..U+00FF; every character U+0000..U+024F, the fullwidth forms, the Latin ligatures and the hand-picked list once in a deterministic sweep of six placements) at generated positions and with generated letter case. Oracle: reference acceptance predicate (digit count, DF/length agreement, C04 parity); a line that is not a frame must leave the table (all fields) untouched; a frame of one of the nine formats with non-zero address must create the row of its address; the table after the decorated line equals the table after the bare digits (wall-clock stamps excluded) and get_message agrees on both. Non-trivial = line with decoration, an off-by-one digit count, or a DF/length mismatch; distinct by hash of the line",
        assumptions: &["'hexadecimal digit' = ASCII 0-9 a-f A-F (char::to_digit(16)); every other character, including non-ASCII digits, is decoration", "no line feed inside a line"],
        workers: 16,
        also_nochk: false,
        fuzz_target: Some("fz_line"),
        quick_budget_s: 900,
        thorough_budget_s: 3600,
        min_nontrivial_quick: 100_000,
        min_nontrivial_thorough: 1_000_000,
        run,
        replay,
    }
}

#[derive(Clone, Debug, Serialize, Deserialize, PartialEq, Eq, Hash)]
pub struct LineCase {
    pub digits: String,            // canonical upper-case hex digits
    pub deco: Vec<(usize, char)>,  // (position in 0..=len, character) inserted before that digit
    pub lower: Vec<bool>,          // per digit: write a-f in lower case
    pub class: String,
}

impl LineCase {
    pub fn decorated(&self) -> String {
        let ds: Vec<char> = self.digits.chars().collect();
        let mut out = String::new();
        for i in 0..=ds.len() {
            for (p, ch) in &self.deco {
                if (*p).min(ds.len()) == i {
                    out.push(*ch);
                }
            }
            if i < ds.len() {
                let c = ds[i];
                if self.lower.get(i).copied().unwrap_or(false) { out.push(c.to_ascii_lowercase()) } else { out.push(c) }
            }
        }
        out
    }
}

/// reference: which frame (if any) the digit string is
pub fn frame_of_digits(d: &str) -> Option<Frame> {
    let body = match d.len() {
        14 | 28 => d,
        26 | 40 => &d[12..],
        _ => return None,
    };
    let f = Frame::from_hex(body)?;
    if length_ok(&f) && parity_ok(&f) { Some(f) } else { None }
}

const FRESH: u32 = 0x5A5A01;
const DECO: &[char] = &['*', '@', ';', ':', ',', ' ', '\t', '\r', '.', '-', '_', '#', '!', '?', '/', '\\', '(', ')', '[', ']', '"', '\'', '+', '=', '<', '>', '~', '|', 'g', 'h', 'x', 'z', 'G', 'X', 'Z', 'o', 'O', 'l', 'é', 'ß', 'Ω', 'Ж', '٣', '५', 'Ａ', 'ｆ', '１', '\u{0}', '\u{7f}', '\u{200b}', '😀', 'ﬀ', 'ﬁ', 'ﬂ', 'ﬃ', 'ﬄ', 'ẚ', 'ŉ', 'İ', 'ǰ', 'Ł', 'š', '‷'];

fn hexstr(n: usize) -> impl Strategy<Value = String> {
    proptest::collection::vec(0u8..16, n).prop_map(|v| v.iter().map(|d| std::char::from_digit(*d as u32, 16).unwrap().to_ascii_uppercase()).collect())
}

/// a well-formed frame with any of the 32 DF values (right length for its DF), parity sealed for squitters
fn frame_any_df() -> BoxedStrategy<Frame> {
    prop_oneof![
        6 => prop_oneof![6 => Just(FRESH), 1 => Just(0xFF_FFFFu32), 1 => Just(0x00_0001u32), 1 => Just(0x80_0000u32)].prop_flat_map(alphabet::frame_any),
        3 => (0u32..32, gen::fill128()).prop_map(|(df, fill)| {
            let len = if df < 16 { 56 } else { 112 };
            let mut f = Frame::new(len);
            f.bits = fill & ((1u128 << len) - 1);
            f.set(1, 5, df as u64);
            match df {
                11 | 17 | 18 => { f.set(9, 32, FRESH as u64); f.seal(0) }
                0 | 4 | 5 | 16 | 20 | 21 => f.seal(FRESH),
                _ => { f.set(9, 32, FRESH as u64); f }
            }
        }),
    ]
    .boxed()
}

fn digits_strategy() -> BoxedStrategy<(String, String)> {
    let ts = || prop_oneof![1 => Just(String::new()), 1 => hexstr(12)];
    prop_oneof![
        // right length
        4 => (frame_any_df(), ts()).prop_map(|(f, t)| (format!("{}{}", t, f.hex()), "frame".to_string())),
        // wrong length for the DF: long formats cut to 14 digits, short formats padded to 28
        3 => (frame_any_df(), ts(), hexstr(14)).prop_map(|(f, t, pad)| {
            let h = f.hex();
            let body = if f.len == 112 { h[..14].to_string() } else { format!("{}{}", h, pad) };
            (format!("{}{}", t, body), "df_length_mismatch".to_string())
        }),
        // off by 1..3 digits
        3 => (frame_any_df(), ts(), 1usize..=3, any::<bool>(), hexstr(3)).prop_map(|(f, t, k, cut, pad)| {
            let h = format!("{}{}", t, f.hex());
            let s = if cut { h[..h.len() - k].to_string() } else { format!("{}{}", h, &pad[..k]) };
            (s, "off_by_few".to_string())
        }),
        // parity-broken squitters
        2 => (frame_any_df().prop_filter("squitter", |f| matches!(f.df(), 11 | 17 | 18)), ts(), 6u32..56, 0u32..3).prop_map(|(mut f, t, b, extra)| {
            f.flip(b.min(f.len));
            for i in 0..extra { f.flip(((b + 17 * (i + 1)) % (f.len - 6)) + 6); }
            (format!("{}{}", t, f.hex()), "parity_broken".to_string())
        }),
        // any digit count
        3 => (0usize..=64).prop_flat_map(hexstr).prop_map(|s| (s, "random_digits".to_string())),
    ]
    .boxed()
}

fn case_strategy() -> impl Strategy<Value = LineCase> {
    // now and then a long run of one padding character (total line length around 256, 512, 1024, 65536 bytes)
    let pad = prop_oneof![
        8 => Just(None),
        1 => (proptest::sample::select(vec![' ', '\r', '\t', '-', ';']), prop_oneof![200usize..300, 480usize..540, 1000usize..1050, 65_480usize..65_560], 0usize..=64).prop_map(Some),
    ];
    (digits_strategy(), proptest::collection::vec((0usize..=64, prop_oneof![3 => proptest::sample::select(DECO.to_vec()), 1 => gen::deco_char()]), 0..8), proptest::collection::vec(any::<bool>(), 64), pad).prop_map(|((digits, class), mut deco, lower, pad)| {
        if let Some((ch, n, at)) = pad {
            deco.extend(std::iter::repeat((at, ch)).take(n));
        }
        LineCase { digits, deco, lower, class }
    })
}

fn prefix_lines() -> Vec<String> {
    vec![bits::df11(0x4840D6, 5, 0).hex(), bits::df4(0x4840D6, bits::ac13_q1(1000), 0).hex(), bits::df11(0xA12345, 4, 0).hex(), bits::df5(0xA12345, bits::id13_from_squawk(1, 2, 0, 0, 0), 0).hex()]
}

pub fn check_line(opts: &Opts, lc: &LineCase) -> Result<(), String> {
    let deco = lc.decorated();
    debug_assert!(!deco.contains('\n'));
    let frame = frame_of_digits(&lc.digits);
    // (3a) public get_message agrees on decorated and canonical text
    let gm_d = squitterator::get_message(&deco);
    let gm_c = squitterator::get_message(&lc.digits);
    if gm_d != gm_c {
        return Err(format!("get_message differs between the bare digits {:?} and the decorated line {:?}: {:?} vs {:?}", lc.digits, deco, gm_c.is_some(), gm_d.is_some()));
    }
    // table effects
    let t = run::new_table();
    run::run_lines(opts, &t, &prefix_lines()).map_err(|e| format!("reader failed on the prefix: {:?}", e))?;
    let before = run::snapshot(&t);
    run::run_lines(opts, &t, &[deco.clone()]).map_err(|e| format!("reader failed on line {:?}: {:?}", deco, e))?;
    let after = run::snapshot(&t);
    match &frame {
        None => {
            if before != after {
                return Err(format!("line {:?} ({} hex digits, {}) is not a frame but changed the table: {}", deco, lc.digits.len(), why_not(&lc.digits), run::table_diff(&before, &after).join("; ")));
            }
        }
        Some(f) => {
            let a = f.address();
            if NINE.contains(&f.df()) && a != 0 && !after.contains_key(&a) {
                return Err(format!("line {:?} is a well-formed DF{} frame for {:06X} but no such row exists afterwards", deco, f.df(), a));
            }
        }
    }
    // (1b) a line that is not a frame leaves the table untouched also when it arrives many times in a row with
    // delete_after 0 (if it counted towards the sweep schedule, the sweep would empty the table)
    if frame.is_none() {
        let mut o0 = opts.clone();
        o0.d = 0;
        let t0 = run::new_table();
        run::run_lines(&o0, &t0, &prefix_lines()).map_err(|e| format!("reader failed on the prefix: {:?}", e))?;
        let b0 = run::snapshot(&t0);
        let many: Vec<String> = std::iter::repeat(deco.clone()).take(25).collect();
        run::run_lines(&o0, &t0, &many).map_err(|e| format!("reader failed on line {:?}: {:?}", deco, e))?;
        let a0 = run::snapshot(&t0);
        if a0 != b0 {
            return Err(format!("25 copies of the non-frame line {:?} changed the table (delete_after 0): {}", deco, run::table_diff(&b0, &a0).join("; ")));
        }
    }
    // (3c) the same line as the unterminated last line of the input (no line feed after it)
    {
        let t3 = run::new_table();
        run::run_lines(opts, &t3, &prefix_lines()).map_err(|e| format!("reader failed on the prefix: {:?}", e))?;
        run::run_bytes(opts, &t3, deco.as_bytes()).map_err(|e| format!("reader failed on the unterminated line {:?}: {:?}", deco, e))?;
        let a = run::no_clock(&run::snapshot(&t3));
        let b = run::no_clock(&after);
        if a != b {
            return Err(format!("line {:?} is treated differently when it is the last line without a line feed: {}", deco, run::table_diff(&b, &a).join("; ")));
        }
    }
    // (3b) decoration invariance on the table
    if deco != lc.digits {
        let t2 = run::new_table();
        run::run_lines(opts, &t2, &prefix_lines()).map_err(|e| format!("reader failed on the prefix: {:?}", e))?;
        run::run_lines(opts, &t2, &[lc.digits.clone()]).map_err(|e| format!("reader failed on line {:?}: {:?}", lc.digits, e))?;
        let canon = run::no_clock(&run::snapshot(&t2));
        let dec = run::no_clock(&after);
        if canon != dec {
            return Err(format!("decoration changes the result: {:?} vs bare digits {:?}: {}", deco, lc.digits, run::table_diff(&canon, &dec).join("; ")));
        }
    }
    Ok(())
}

fn why_not(d: &str) -> String {
    let body = match d.len() {
        14 | 28 => d,
        26 | 40 => &d[12..],
        n => return format!("digit count {} is none of 14/28/26/40", n),
    };
    match Frame::from_hex(body) {
        None => "unparsable".into(),
        Some(f) => {
            if !length_ok(&f) {
                format!("DF{} with {} bits", f.df(), f.len)
            } else if !parity_ok(&f) {
                format!("DF{} parity remainder {:06X}", f.df(), f.syndrome())
            } else {
                "??".into()
            }
        }
    }
}

fn run(c: &mut Ctx) {
    super::replay_fuzz_corpus(c, "fz_line", &["C02", "C01"]);
    // deterministic sweep over every digit count, three fillings each, bare and decorated
    let mut idx = 0u64;
    for n in 0..=64usize {
        for (k, fillc) in ['0', 'F', '8', '5', 'A'].iter().enumerate() {
            for deco in [false, true] {
                let mine = c.mine(idx);
                idx += 1;
                if !mine {
                    continue;
                }
                let mut digits: String = std::iter::repeat(*fillc).take(n).collect();
                if n >= 2 && k == 2 {
                    digits.replace_range(0..2, "8D");
                }
                let lc = LineCase { digits, deco: if deco { vec![(0, '*'), (n / 2, ' '), (n, ';'), (n, '\r')] } else { vec![] }, lower: vec![deco; 64], class: "count_sweep".into() };
                c.eval(1);
                c.nontrivial(&lc);
                c.class("count_sweep");
                if let Err(m) = check_line(&Opts::quiet(), &lc) {
                    if !c.failed() {
                        c.fail(m, "c02:line", json!({"kind":"line","opts":Opts::quiet(),"line":lc}));
                    }
                }
            }
        }
    }
    c.exhaustive("hex digit count 0..64 (five fillings, bare and decorated)");
    // deterministic sweep over the decoration character: every character U+0000..U+024F (and the fullwidth forms) that is
    // not a hexadecimal digit or a line feed, inside a valid frame (must stay that frame), appended to 27 and to 13 digits
    // (must not complete them), inside a 29-digit string (must not be skipped together with a digit)
    let frame28 = bits::es(17, 5, 0x4840D6, bits::me_ident(4, 3, [5, 9, 14, 49, 50, 51, 32, 32])).hex();
    let frame14 = bits::df11(0xA12345, 5, 0).hex();
    let chars: Vec<char> = (0u32..0x250).chain(0xFF10..0xFF5B).chain(0xFB00..0xFB07).chain(0x1E96..0x1E9C).filter_map(char::from_u32).chain(DECO.iter().cloned()).filter(|ch| !ch.is_ascii_hexdigit() && *ch != '\n').collect();
    for (ci, ch) in chars.iter().enumerate() {
        if !c.mine(ci as u64) {
            continue;
        }
        let variants: Vec<(String, Vec<(usize, char)>)> = vec![
            (frame28.clone(), vec![(0, *ch), (7, *ch), (28, *ch)]),
            (frame14.clone(), vec![(3, *ch)]),
            (frame28[..27].to_string(), vec![(27, *ch)]),
            (frame28[..27].to_string(), vec![(0, *ch)]),
            (frame14[..13].to_string(), vec![(5, *ch)]),
            (format!("{}0", frame28), vec![(9, *ch)]),
        ];
        for (digits, deco) in variants {
            let lc = LineCase { digits, deco, lower: vec![ci % 2 == 0; 64], class: "deco_char_sweep".into() };
            c.eval(1);
            c.nontrivial(&lc);
            c.class("deco_char_sweep");
            if let Err(m) = check_line(&Opts::quiet(), &lc) {
                if !c.failed() {
                    c.fail(m, "c02:line", json!({"kind":"line","opts":Opts::quiet(),"line":lc}));
                }
            }
        }
    }
    c.exhaustive("decoration character U+0000..U+024F and fullwidth forms, six placements each");
    let cases = c.tier.pick(200_000, 3_000_000);
    let strat = (gen::opts_ur(), case_strategy());
    let r = c.proptest(cases, strat, |c, (opts, lc), counting| {
        check_line(opts, lc)?;
        if counting {
            c.eval(1);
            c.class(&lc.class);
            let is_frame = frame_of_digits(&lc.digits).is_some();
            c.class(if is_frame { "accepted_by_reference" } else { "rejected_by_reference" });
            let decorated = lc.decorated() != lc.digits;
            if decorated || lc.class != "frame" {
                c.nontrivial(lc);
            }
            if c.want_sample() && decorated {
                c.sample(json!({"line": lc.decorated(), "digits": lc.digits, "class": lc.class, "frame_by_reference": is_frame}));
            }
        }
        Ok(())
    });
    if let Some(((opts, lc), m)) = r {
        c.fail(m, "c02:line", json!({"kind":"line","opts":opts,"line":lc}));
    }
}

fn replay(c: &mut Ctx, case: &Value) {
    c.eval(1);
    if let Some(r) = super::replay_fuzz_case(case) {
        if let Err((p, m)) = r {
            c.fail(format!("[{}] {}", p, m), "fuzz:artifact", case.clone());
        }
        return;
    }
    let opts: Opts = serde_json::from_value(case["opts"].clone()).unwrap_or_default();
    let Ok(lc) = serde_json::from_value::<LineCase>(case["line"].clone()) else { return c.inconclusive("bad replay") };
    if let Err(m) = check_line(&opts, &lc) {
        c.fail(m, "c02:line", case.clone());
    }
}
