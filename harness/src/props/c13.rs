//! C13 — unusable lines affect nothing but themselves.

use super::PropSpec;
use crate::alphabet;
use crate::cli;
use crate::ctx::Ctx;
use crate::gen;
use crate::props::c02::frame_of_digits;
use crate::run::{self, Opts};
use proptest::prelude::*;
use serde::{Deserialize, Serialize};
use serde_json::{json, Value};
use std::time::Duration;

pub fn spec() -> PropSpec {
    PropSpec {
        id: "C13",
        level: "exploration",
        rule: "generated mixed streams: well-formed frames of the whole alphabet for 2-4 aircraft and windows of the recorded files, with 1..40 junk lines (empty, blanks, non-hex text, unaccepted digit counts, truncated frames, NUL bytes, invalid UTF-8, lone CR, 64-256 KiB lines) inserted at generated positions, LF or CRLF endings. Metamorphic oracle: the reader returns Ok and table(stream) == table(subsequence of lines the reference predicate of C02/C04 accepts), wall-clock stamps excluded - also with delete_after 0 (every sweep empties the table, so a junk line that moved the sweep schedule would show), with an unterminated last line, with repeated lines and with junk whose tail after a power-of-two byte offset is a complete frame; a share of the cases is repeated through the built CLI comparing the rows of the last refresh. Non-trivial = stream with >= 1 line that is not valid UTF-8 followed by >= 1 accepted line; distinct by hash of the stream",
        assumptions: &["a junk line containing invalid UTF-8 never carries an accepted hex-digit count (C02 and C13 would otherwise pull in opposite directions)", "elapsed time plays no role: delete_after is either very large or 0"],
        workers: 16,
        also_nochk: false,
        fuzz_target: Some("fz_stream"),
        quick_budget_s: 900,
        thorough_budget_s: 3600,
        min_nontrivial_quick: 2_000,
        min_nontrivial_thorough: 50_000,
        run,
        replay,
    }
}

#[derive(Clone, Debug, Serialize, Deserialize, PartialEq, Eq, Hash)]
pub struct Mixed {
    pub opts: Opts,
    pub lines: Vec<Vec<u8>>,
    pub crlf: bool,
    /// the last line has no line terminator
    #[serde(default)]
    pub no_final_newline: bool,
}

fn digits_of(line: &[u8]) -> Option<String> {
    let s = std::str::from_utf8(line).ok()?;
    Some(s.chars().filter(|c| c.to_digit(16).is_some()).map(|c| c.to_ascii_uppercase()).collect())
}

/// reference: is the line accepted as a frame?
pub fn accepted(line: &[u8]) -> bool {
    match digits_of(line) {
        None => false, // not valid UTF-8: never accepted (generator guarantees the digit count is unaccepted anyway)
        Some(d) => frame_of_digits(&d).is_some(),
    }
}

fn join(lines: &[&Vec<u8>], crlf: bool) -> Vec<u8> {
    join_nl(lines, crlf, true)
}

fn join_nl(lines: &[&Vec<u8>], crlf: bool, final_newline: bool) -> Vec<u8> {
    let mut b = Vec::new();
    for (i, l) in lines.iter().enumerate() {
        b.extend_from_slice(l);
        if i + 1 == lines.len() && !final_newline {
            break;
        }
        if crlf { b.push(b'\r'); }
        b.push(b'\n');
    }
    b
}

fn rec_lines() -> Vec<Vec<u8>> {
    // a deterministic sample of the recorded files (every 97th line of squitters.txt and sbs1.txt)
    let mut v = Vec::new();
    for (f, step) in [("/repo/rec/squitters.txt", 97usize), ("/repo/rec/sbs1.txt", 1), ("/repo/rec/raw2.txt", 1)] {
        if let Ok(b) = std::fs::read(f) {
            for (i, l) in b.split(|c| *c == b'\n').enumerate() {
                if i % step == 0 && !l.is_empty() && l.len() < 80 {
                    let l: Vec<u8> = l.iter().cloned().filter(|c| *c != b'\r').collect();
                    v.push(l);
                }
            }
        }
    }
    v
}

fn mixed_strategy(rec: std::sync::Arc<Vec<Vec<u8>>>) -> BoxedStrategy<Mixed> {
    let nrec = rec.len().max(1);
    let rec2 = rec.clone();
    let good = prop_oneof![
        8 => (0usize..4).prop_flat_map(|a| alphabet::frame_any(gen::POOL[a])).prop_map(|f| f.hex().into_bytes()),
        2 => (0..nrec).prop_map(move |i| rec2.get(i).cloned().unwrap_or_default()),
    ];
    let junk = prop_oneof![40 => gen::junk_line(), 2 => gen::long_junk_line(), 1 => gen::junk_with_frame_after_offset()];
    // a line is: a good frame, junk, or a repetition of the previous line (marker)
    let line = prop_oneof![12 => good.prop_map(Some), 4 => junk.prop_map(Some), 1 => Just(None)];
    // delete_after 0 makes every sweep visible: a line that is not accepted must not move the sweep schedule
    let opts = (gen::opts_ur(), prop_oneof![3 => Just(1_000_000i64), 1 => Just(0i64)]).prop_map(|(mut o, d)| { o.d = d; o });
    (opts, proptest::collection::vec(line, 2..80), any::<bool>(), prop::bool::weighted(0.25))
        .prop_map(|(opts, lines, crlf, no_final_newline)| {
            let mut out: Vec<Vec<u8>> = Vec::new();
            for l in lines {
                match l {
                    Some(l) => out.push(l),
                    None => {
                        // repeat the last accepted-looking line (possibly across junk) or the previous line
                        if let Some(prev) = out.iter().rev().find(|x| x.len() == 28 || x.len() == 14).cloned().or_else(|| out.last().cloned()) {
                            out.push(prev);
                        }
                    }
                }
            }
            Mixed { opts, lines: out, crlf, no_final_newline }
        })
        .boxed()
}

fn check(m: &Mixed) -> Result<(), String> {
    let all: Vec<&Vec<u8>> = m.lines.iter().collect();
    let acc: Vec<&Vec<u8>> = m.lines.iter().filter(|l| accepted(l)).collect();
    let t1 = run::new_table();
    run::run_bytes(&m.opts, &t1, &join_nl(&all, m.crlf, !m.no_final_newline)).map_err(|e| format!("reader failed on the stream: {:?}", e))?;
    let t2 = run::new_table();
    run::run_bytes(&m.opts, &t2, &join(&acc, false)).map_err(|e| format!("reader failed on the accepted subsequence: {:?}", e))?;
    let a = run::no_clock(&run::snapshot(&t1));
    let b = run::no_clock(&run::snapshot(&t2));
    if a != b {
        let d = run::table_diff(&b, &a);
        return Err(format!("table(stream of {} lines{}) differs from table(its {} accepted lines) [{}]: {}", all.len(), if m.no_final_newline { ", last line unterminated" } else { "" }, acc.len(), m.opts.label(), d.iter().take(6).cloned().collect::<Vec<_>>().join("; ")));
    }
    Ok(())
}

fn strip_lc(row: &str) -> String {
    // the last column is the last-contact age (2 chars, right aligned)
    let cs: Vec<char> = row.chars().collect();
    let n = cs.len().saturating_sub(2);
    cs[..n].iter().collect()
}

fn check_cli(m: &Mixed) -> Result<(), String> {
    let mut o = m.opts.clone();
    o.i = vec!["aAws".into()];
    o.upd = -1;
    let dir = run::tmp_dir();
    let p1 = dir.join(format!("c13a-{}.txt", std::process::id()));
    let p2 = dir.join(format!("c13b-{}.txt", std::process::id()));
    let all: Vec<&Vec<u8>> = m.lines.iter().collect();
    let acc: Vec<&Vec<u8>> = m.lines.iter().filter(|l| accepted(l)).collect();
    std::fs::write(&p1, join(&all, m.crlf)).map_err(|e| e.to_string())?;
    std::fs::write(&p2, join(&acc, false)).map_err(|e| e.to_string())?;
    let mut last = Vec::new();
    for p in [&p1, &p2] {
        let out = cli::run_file(true, &o, &p.to_string_lossy(), &[], true, Duration::from_secs(60)).map_err(|e| e.to_string())?;
        if out.timed_out {
            return Err("TIMEOUT".into());
        }
        if out.status != Some(0) {
            return Err(format!("CLI ended with status {:?} signal {:?}: {}", out.status, out.signal, out.stderr));
        }
        let (_, rs) = cli::parse_refreshes(&String::from_utf8_lossy(&out.stdout));
        last.push(rs.last().map(|r| r.rows.iter().map(|x| strip_lc(x)).collect::<Vec<_>>()).unwrap_or_default());
    }
    if last[0] != last[1] {
        return Err(format!("CLI: last refresh after the stream {:?} differs from last refresh after its accepted lines {:?}", last[0], last[1]));
    }
    Ok(())
}

fn run(c: &mut Ctx) {
    super::replay_fuzz_corpus(c, "fz_stream", &["C13", "C01"]);
    let rec = std::sync::Arc::new(rec_lines());
    let cases = c.tier.pick(36_000, 600_000);
    let r = c.proptest(cases, mixed_strategy(rec.clone()), |c, m, counting| {
        check(m)?;
        if counting {
            c.eval(1);
            let first_bad = m.lines.iter().position(|l| std::str::from_utf8(l).is_err());
            let nt = first_bad.map(|i| m.lines[i + 1..].iter().any(|l| accepted(l))).unwrap_or(false);
            if nt {
                c.nontrivial(m);
                c.class("invalid_utf8_then_accepted");
            } else {
                c.class("other");
            }
            if m.crlf { c.class("crlf"); }
            if m.no_final_newline { c.class("last_line_unterminated"); }
            if m.opts.d == 0 { c.class("delete_after_0"); }
            if m.lines.iter().any(|l| l.len() > 60_000) { c.class("has_long_line"); }
            let nj = m.lines.iter().filter(|l| !accepted(l)).count();
            c.class_n("junk_lines_total", nj as u64);
            c.class_n("accepted_lines_total", (m.lines.len() - nj) as u64);
            if c.want_sample() && nt && m.lines.len() < 14 {
                c.sample(json!({"opts": m.opts.label(), "crlf": m.crlf, "lines": m.lines.iter().map(|l| String::from_utf8_lossy(l).chars().take(50).collect::<String>()).collect::<Vec<_>>(), "accepted": m.lines.iter().map(|l| accepted(l)).collect::<Vec<_>>()}));
            }
        }
        Ok(())
    });
    if let Some((m, msg)) = r {
        c.fail(msg, "c13:table", json!({"kind":"mixed","m":m,"cli":false}));
        return;
    }
    let cases = c.tier.pick(160, 4_000);
    let r = c.proptest(cases, mixed_strategy(rec), |c, m, counting| {
        match check_cli(m) {
            Ok(()) => {}
            Err(e) if e == "TIMEOUT" => {
                c.inconclusive("CLI timeout");
                return Ok(());
            }
            Err(e) => return Err(e),
        }
        if counting {
            c.eval(1);
            c.class("cli_pair");
        }
        Ok(())
    });
    if let Some((m, msg)) = r {
        c.fail(msg, "c13:cli", json!({"kind":"mixed","m":m,"cli":true}));
        return;
    }
    tcp_subcheck(c);
    volume_cases(c);
}

/// deterministic volume cases: very many consecutive unusable lines, one very long line (counters / buffers that
/// overflow or latch only after a large amount of junk)
fn volume_cases(c: &mut Ctx) {
    let f1 = crate::bits::df11(0x4840D6, 5, 0).hex().into_bytes();
    let f2 = crate::bits::df4(0x4840D6, crate::bits::ac13_q1(1000), 0).hex().into_bytes();
    let f3 = crate::bits::df11(0xA12345, 5, 0).hex().into_bytes();
    let mut cases: Vec<(String, Vec<Vec<u8>>)> = Vec::new();
    // 70 000 consecutive junk lines (more than 2^16), between frames
    let mut l = vec![f1.clone()];
    l.extend(std::iter::repeat(Vec::new()).take(70_000));
    l.push(f2.clone());
    l.push(f3.clone());
    cases.push(("70000 empty lines between frames".into(), l));
    let mut l = vec![f1.clone()];
    l.extend((0..70_000u32).map(|i| format!("junk {}", i).into_bytes()));
    l.push(f2.clone());
    l.push(f3.clone());
    cases.push(("70000 text lines between frames".into(), l));
    // one line of 5 MiB and one of 17 MiB (thorough), then frames
    for mib in if c.tier == crate::ctx::Tier::Thorough { vec![5usize, 17] } else { vec![5usize] } {
        let mut l = vec![f1.clone(), vec![b'x'; mib << 20], f2.clone(), f3.clone()];
        l.push(vec![b'z'; 100]);
        cases.push((format!("a {} MiB line between frames", mib), l));
    }
    for (i, (name, lines)) in cases.into_iter().enumerate() {
        if !c.mine(i as u64 + 7) {
            continue;
        }
        let m = Mixed { opts: Opts::quiet(), lines, crlf: false, no_final_newline: false };
        c.eval(1);
        c.class("volume_case");
        c.nontrivial(&name);
        if let Err(e) = check(&m) {
            if !c.failed() {
                c.fail(format!("{}: {}", name, e), "c13:volume", json!({"kind":"volume","name":name}));
            }
        }
    }
}

fn tcp_subcheck(c: &mut Ctx) {
    // junk lines (incl. invalid UTF-8) followed by frames on one TCP connection, then a healthy reconnect
    use super::c18::{check, Fault, Outcome};
    for (i, seq) in [vec![Fault::JunkThenFrames], vec![Fault::JunkThenFrames, Fault::JunkThenFrames], vec![Fault::FramesClose, Fault::JunkThenFrames]].iter().enumerate() {
        if !c.mine(i as u64) {
            continue;
        }
        c.eval(1);
        c.class("tcp_junk_then_frames");
        match check(seq, 1200 + i as u64) {
            Ok(Outcome::Ok { .. }) => c.nontrivial(&("tcp", i)),
            Ok(Outcome::Inconclusive(m)) => c.inconclusive(&m),
            Err(m) => {
                if m.starts_with("harness:") || m.starts_with("cannot start") {
                    c.inconclusive(&m);
                } else if !c.failed() {
                    c.fail(m, "c13:tcp", json!({"kind":"tcp","faults":seq}));
                }
            }
        }
    }
}

fn replay(c: &mut Ctx, case: &Value) {
    if let Some(r) = super::replay_fuzz_case(case) {
        c.eval(1);
        if let Err((p, m)) = r {
            c.fail(format!("[{}] {}", p, m), "fuzz:artifact", case.clone());
        }
        return;
    }
    if case["kind"].as_str() == Some("volume") {
        volume_cases(c);
        return;
    }
    if case["kind"].as_str() == Some("tcp") {
        c.eval(1);
        if let Ok(seq) = serde_json::from_value::<Vec<super::c18::Fault>>(case["faults"].clone()) {
            if let Err(m) = super::c18::check(&seq, 1300) {
                c.fail(m, "c13:tcp", case.clone());
            }
        }
        return;
    }
    c.eval(1);
    let Ok(m) = serde_json::from_value::<Mixed>(case["m"].clone()) else { return c.inconclusive("bad replay") };
    let r = if case["cli"].as_bool().unwrap_or(false) { check_cli(&m) } else { check(&m) };
    if let Err(e) = r {
        if e != "TIMEOUT" {
            c.fail(e, "c13:table", case.clone());
        }
    }
}
