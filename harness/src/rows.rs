//! Row states injected straight into the aircraft table (C14, C15).

use crate::run::Table;
use proptest::prelude::*;
use serde::{Deserialize, Serialize};
use squitterator::Plane;

#[derive(Clone, Debug, Serialize, Deserialize, PartialEq)]
pub struct RowSpec {
    pub icao: u32,
    pub reg: String,
    pub squawk: Option<u32>,
    pub threat: Option<char>,
    pub category: (u32, u32),
    pub ais: Option<String>,
    pub lat: f64,
    pub lon: f64,
    pub dist: Option<f64>,
    pub altitude: Option<u32>,
    pub altitude_source: char,
    pub altitude_gnss: Option<u32>,
    pub selected_altitude: Option<u32>,
    pub target_altitude_source: char,
    pub baro: Option<u32>,
    pub vrate: Option<i32>,
    pub vrate_source: char,
    pub track: Option<u32>,
    pub track_source: char,
    pub heading: Option<u32>,
    pub heading_source: char,
    pub grspeed: Option<u32>,
    pub tas: Option<u32>,
    pub ias: Option<u32>,
    pub mach: Option<f64>,
    pub roll: Option<i32>,
    pub tar: Option<i32>,
    pub temperature: Option<f64>,
    pub wind: Option<(u32, u32)>,
    pub humidity: Option<u32>,
    pub pressure: Option<u32>,
    pub turbulence: Option<u32>,
    pub last_df: u32,
    pub last_tc: u32,
    pub version: Option<u32>,
    pub ss: char,
    pub pos_age: Option<i64>,
    pub trk_age: Option<i64>,
    pub hdg_age: Option<i64>,
}

const REGS: &[&str] = &["US", "IE", "DE", "GB", "??", "RU", "FR"];

impl RowSpec {
    pub fn to_plane(&self) -> Plane {
        let mut p = Plane::new();
        let now = chrono::Utc::now();
        p.icao = self.icao;
        p.reg = REGS.iter().find(|r| **r == self.reg).copied().unwrap_or("??");
        p.squawk = self.squawk;
        p.threat_encounter = self.threat;
        p.category = self.category;
        p.ais = self.ais.clone();
        p.lat = self.lat;
        p.lon = self.lon;
        p.distance_from_observer = self.dist;
        p.altitude = self.altitude;
        p.altitude_source = self.altitude_source;
        p.altitude_gnss = self.altitude_gnss;
        p.selected_altitude = self.selected_altitude;
        p.target_altitude_source = self.target_altitude_source;
        p.barometric_pressure_setting = self.baro;
        p.vrate = self.vrate;
        p.vrate_source = self.vrate_source;
        p.track = self.track;
        p.track_source = self.track_source;
        p.heading = self.heading;
        p.heading_source = self.heading_source;
        p.grspeed = self.grspeed;
        p.true_airspeed = self.tas;
        p.indicated_airspeed = self.ias;
        p.mach_number = self.mach;
        p.roll_angle = self.roll;
        p.track_angle_rate = self.tar;
        p.temperature = self.temperature;
        p.wind = self.wind;
        p.humidity = self.humidity;
        p.pressure = self.pressure;
        p.turbulence = self.turbulence;
        p.last_df = self.last_df;
        p.last_type_code = self.last_tc;
        p.adsb_version = self.version;
        p.surveillance_status = self.ss;
        // ages end in 9.4 s / 0.6 s: whole-second truncation of the true age gives the digit below, while
        // 'floor(now) - floor(then)' would often give the next one
        let ms = chrono::Duration::milliseconds(400);
        p.position_timestamp = self.pos_age.map(|a| now - chrono::Duration::seconds(a) - ms);
        p.track_timestamp = self.trk_age.map(|a| now - chrono::Duration::seconds(a) - ms);
        p.heading_timestamp = self.hdg_age.map(|a| now - chrono::Duration::seconds(a) - ms);
        p.timestamp = now - chrono::Duration::milliseconds(600);
        p
    }
}

pub fn inject(table: &Table, rows: &[RowSpec]) {
    let mut g = table.write().unwrap();
    for r in rows {
        g.insert(r.icao, r.to_plane());
    }
}

fn opt<T: std::fmt::Debug + Clone + 'static>(s: impl Strategy<Value = T> + 'static) -> BoxedStrategy<Option<T>> {
    prop_oneof![1 => Just(None), 3 => s.prop_map(Some)].boxed()
}

fn r5(x: f64) -> f64 {
    (x * 1e5).round() / 1e5
}

/// every column independently blank / typical / extreme-in-range / negative
pub fn row_strategy(icao: impl Strategy<Value = u32> + 'static) -> BoxedStrategy<RowSpec> {
    let src = || proptest::sample::select(vec![' ', '\u{2070}', '\u{2081}', '\u{2082}', '\u{2083}', '\u{2085}', '\u{2086}', '\u{2071}', '"']);
    let pos = prop_oneof![
        1 => Just((0.0f64, 0.0f64)),
        4 => (-89.99999f64..89.99999, -179.99999f64..179.99999).prop_map(|(a, b)| (r5(a), r5(b))),
        1 => Just((-89.99999f64, -179.99999f64)),
        1 => Just((89.99999f64, 179.99999f64)),
        1 => (0.5f64..0.6, -0.6f64..-0.5).prop_map(|(a, b)| (r5(a), r5(b))),
    ];
    let p1 = (
        icao,
        proptest::sample::select(REGS.to_vec()).prop_map(|s| s.to_string()),
        opt(prop_oneof![Just(0u32), Just(7777u32), (0u32..8, 0u32..8, 0u32..8, 0u32..8).prop_map(|(a, b, c, d)| a * 1000 + b * 100 + c * 10 + d)]),
        opt(proptest::sample::select(vec!['\u{2071}', '\u{2072}'])),
        prop_oneof![Just((0u32, 0u32)), (1u32..=4, 0u32..8)],
        opt("[A-Z0-9]{0,8}"),
        pos,
        opt(prop_oneof![4 => (0.0f64..999.9), 1 => Just(999.9f64), 1 => Just(0.0f64)]),
    );
    let p2 = (
        opt(prop_oneof![Just(0u32), Just(99975u32), (0u32..4000).prop_map(|n| n * 25)]),
        src(),
        opt(0u32..99999),
        opt((0u32..4096).prop_map(|n| n * 16)),
        src(),
        opt(800u32..1210),
        opt(prop_oneof![Just(-9984i32), Just(9984i32), Just(0i32), (-156i32..156).prop_map(|n| n * 64)]),
        src(),
    );
    let p3 = (
        opt(0u32..360),
        src(),
        opt(0u32..360),
        src(),
        opt(prop_oneof![Just(0u32), Just(999u32), 0u32..700]),
        opt(0u32..999),
        opt(0u32..999),
        opt(prop_oneof![Just(0.0f64), Just(1.0f64), (0u32..250).prop_map(|n| n as f64 * 0.004)]),
    );
    let p4 = (
        opt(-50i32..=50),
        opt(-16i32..=16),
        opt(prop_oneof![Just(-80.0f64), Just(60.0f64), (-320i32..240).prop_map(|n| n as f64 * 0.25)]),
        opt((0u32..300, 0u32..360)),
        opt(0u32..=100),
        opt(0u32..2048),
        opt(0u32..16),
    );
    let p5 = (prop_oneof![Just(0u32), 1u32..22], prop_oneof![Just(0u32), 1u32..32], opt(0u32..8), proptest::sample::select(vec![' ', 'N', 'P', 'T', 'S']), opt((0i64..20).prop_map(|k| k * 10 + 9)), opt((0i64..20).prop_map(|k| k * 10 + 9)), opt((0i64..20).prop_map(|k| k * 10 + 9)));
    (p1, p2, p3, p4, p5)
        .prop_map(|(a, b, c, d, e)| RowSpec {
            icao: a.0,
            reg: a.1,
            squawk: a.2,
            threat: a.3,
            category: a.4,
            ais: a.5,
            lat: (a.6).0,
            lon: (a.6).1,
            dist: a.7,
            altitude: b.0,
            altitude_source: b.1,
            altitude_gnss: b.2,
            selected_altitude: b.3,
            target_altitude_source: b.4,
            baro: b.5,
            vrate: b.6,
            vrate_source: b.7,
            track: c.0,
            track_source: c.1,
            heading: c.2,
            heading_source: c.3,
            grspeed: c.4,
            tas: c.5,
            ias: c.6,
            mach: c.7,
            roll: d.0,
            tar: d.1,
            temperature: d.2,
            wind: d.3,
            humidity: d.4,
            pressure: d.5,
            turbulence: d.6,
            last_df: e.0,
            last_tc: e.1,
            version: e.2,
            ss: e.3,
            pos_age: e.4,
            trk_age: e.5,
            hdg_age: e.6,
        })
        .boxed()
}
