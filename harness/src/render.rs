//! Independent column specification of the printed table and helpers to cut a printed row into cells.

use crate::run::{capture_stdout, Opts, Table};
use squitterator::{DisplayFlags, Planes};
use std::collections::BTreeMap;

#[derive(Clone, Copy, Debug, PartialEq, Eq)]
pub enum Align {
    Left,
    Right,
}

#[derive(Clone, Copy, Debug)]
pub struct Col {
    pub name: &'static str,
    pub width: usize,
    pub align: Align,
    /// '\0' = always, otherwise the -i letter of the group
    pub group: char,
}

const fn col(name: &'static str, width: usize, align: Align, group: char) -> Col {
    Col { name, width, align, group }
}

pub const COLUMNS: &[Col] = &[
    col("ICAO", 6, Align::Left, '\0'),
    col("RG", 2, Align::Left, '\0'),
    col("SQWK", 4, Align::Right, '\0'),
    col("W", 1, Align::Left, '\0'),
    col("CALLSIGN", 8, Align::Left, '\0'),
    col("LATITUDE", 9, Align::Right, '\0'),
    col("LONGITUDE", 11, Align::Right, '\0'),
    col("DIST", 5, Align::Right, '\0'),
    col("ALT B", 5, Align::Right, '\0'),
    col("ALT G", 5, Align::Right, 'A'),
    col("ALT S", 5, Align::Right, 'A'),
    col("BARO", 4, Align::Right, 'A'),
    col("VRATE", 5, Align::Right, '\0'),
    col("TRK", 3, Align::Right, '\0'),
    col("HDG", 3, Align::Right, '\0'),
    col("GSP", 3, Align::Right, '\0'),
    col("TAS", 3, Align::Right, 's'),
    col("IAS", 3, Align::Right, 's'),
    col("MACH", 4, Align::Right, 's'),
    col("RLL", 3, Align::Right, 'a'),
    col("TAR", 3, Align::Right, 'a'),
    col("TEMP", 5, Align::Right, 'w'),
    col("WND", 3, Align::Right, 'w'),
    col("WDR", 3, Align::Right, 'w'),
    col("HUM", 3, Align::Right, 'w'),
    col("PRES", 4, Align::Right, 'w'),
    col("TB", 2, Align::Right, 'w'),
    col("VX", 2, Align::Left, 'e'),
    col("DF", 2, Align::Right, 'e'),
    col("TC", 2, Align::Right, 'e'),
    col("V", 1, Align::Right, 'e'),
    col("S", 1, Align::Left, 'e'),
    col("PTH", 3, Align::Left, 'e'),
    col("LC", 2, Align::Right, '\0'),
];

pub fn active_columns(flags: &str) -> Vec<Col> {
    COLUMNS.iter().filter(|c| c.group == '\0' || flags.contains(c.group)).cloned().collect()
}

/// header and separator as the specification says they must look (each column right-aligned name / dashes, one blank between)
pub fn spec_header(flags: &str) -> (String, String) {
    let cols = active_columns(flags);
    let mut h = String::new();
    let mut s = String::new();
    for (i, c) in cols.iter().enumerate() {
        if i > 0 {
            h.push(' ');
            s.push(' ');
        }
        h.push_str(&format!("{:>w$}", c.name, w = c.width));
        s.push_str(&"-".repeat(c.width));
    }
    (h, s)
}

/// cuts a row into cells by the column positions of the specification; None if the row is shorter than the columns need
pub fn cells(flags: &str, row: &str) -> Option<BTreeMap<&'static str, String>> {
    let cols = active_columns(flags);
    let chars: Vec<char> = row.chars().collect();
    let mut out = BTreeMap::new();
    let mut pos = 0usize;
    for (i, c) in cols.iter().enumerate() {
        if i > 0 {
            pos += 1; // separator position (may carry an annotation character)
        }
        let end = pos + c.width;
        if i + 1 == cols.len() {
            // last column (LC) may be wider than 2 when the age has 3+ digits
            let s: String = chars.get(pos..).map(|x| x.iter().collect()).unwrap_or_default();
            out.insert(c.name, s);
        } else {
            if end > chars.len() {
                return None;
            }
            out.insert(c.name, chars[pos..end].iter().collect());
        }
        pos = end;
    }
    Some(out)
}

/// the annotation character that follows column `name` (the separator position)
pub fn sep_after(flags: &str, row: &str, name: &str) -> Option<char> {
    let cols = active_columns(flags);
    let chars: Vec<char> = row.chars().collect();
    let mut pos = 0usize;
    for (i, c) in cols.iter().enumerate() {
        if i > 0 {
            pos += 1;
        }
        pos += c.width;
        if c.name == name {
            return chars.get(pos).copied();
        }
    }
    None
}

/// Planes::print of the table, captured
pub fn print_table(table: &Table, opts: &Opts) -> Vec<String> {
    let planes = Planes { aircrafts: table.clone() };
    let args = opts.args("/dev/null");
    let flags = DisplayFlags::from_arg_str(&opts.i.concat());
    let out = capture_stdout(|| planes.print(&args, &flags));
    out.lines().map(|l| l.to_string()).collect()
}
