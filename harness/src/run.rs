//! Driving the real code: option sets, the reader thread on a temp file, table snapshots,
//! simulated time, stdout capture.

use chrono::{DateTime, Duration, Utc};
use serde::{Deserialize, Serialize};
use squitterator::{Args, Plane, Planes};
use std::collections::{BTreeMap, HashMap};
use std::io::Write;
use std::os::unix::io::AsRawFd;
use std::path::PathBuf;
use std::sync::{Arc, Mutex, RwLock};

pub type Table = Arc<RwLock<HashMap<u32, Plane>>>;

#[derive(Clone, Debug, PartialEq, Eq, Hash, Serialize, Deserialize)]
pub struct Opts {
    pub u: bool,               // -U
    pub r: bool,               // -R
    pub c: bool,               // -c
    pub f: Option<Vec<u32>>,   // -f
    pub i: Vec<String>,        // -i
    pub o: Vec<String>,        // -o
    pub d: i64,                // -d
    pub upd: i64,              // -u
    pub m: Option<Vec<u32>>,   // -M
    pub dl: bool,              // -D <tmp file>
    #[serde(default)]
    pub fmt: Option<String>,   // -F (declared by the program, currently without effect)
}

impl Default for Opts {
    fn default() -> Self {
        Opts { u: false, r: false, c: false, f: None, i: vec!["Q".into()], o: vec!["sA".into()], d: 1_000_000, upd: 3, m: None, dl: false, fmt: None }
    }
}

impl Opts {
    pub fn quiet() -> Opts {
        Opts::default()
    }
    pub fn with_u(mut self, u: bool) -> Opts {
        self.u = u;
        self
    }
    pub fn with_r(mut self, r: bool) -> Opts {
        self.r = r;
        self
    }
    pub fn is_quiet(&self) -> bool {
        self.i.concat().contains('Q')
    }
    pub fn args(&self, source: &str) -> Args {
        Args {
            count_df: self.c,
            display_info: self.i.clone(),
            downlink_log: if self.dl { Some(format!("{}.dl", source)) } else { None },
            error_log: None,
            filter: self.f.clone(),
            format: self.fmt.clone(),
            log_messages: self.m.clone(),
            order_by: self.o.clone(),
            observer_coord: None,
            relaxed: self.r,
            source: source.to_string(),
            tcp: String::new(),
            update: self.upd,
            delete_after: self.d,
            use_update_method: self.u,
        }
    }
    pub fn label(&self) -> String {
        let mut s = String::new();
        if self.u { s.push_str("-U "); }
        if self.r { s.push_str("-R "); }
        if self.c { s.push_str("-c "); }
        if let Some(f) = &self.f { s.push_str(&format!("-f{:?} ", f)); }
        if let Some(f) = &self.fmt { s.push_str(&format!("-F{} ", f)); }
        s.push_str(&format!("-i{} -o{} -d{} -u{}", self.i.concat(), self.o.concat(), self.d, self.upd));
        s
    }
}

// --------------------------------------------------------------------------------------------
// temp dir

fn tmp_root() -> PathBuf {
    let base = if std::path::Path::new("/dev/shm").is_dir() { PathBuf::from("/dev/shm") } else { std::env::temp_dir() };
    let p = base.join(format!("sqverif-{}", std::process::id()));
    let _ = std::fs::create_dir_all(&p);
    p
}
pub fn tmp_dir() -> PathBuf {
    static DIR: Mutex<Option<PathBuf>> = Mutex::new(None);
    let mut g = DIR.lock().unwrap();
    if g.is_none() {
        *g = Some(tmp_root());
    }
    g.clone().unwrap()
}
pub fn cleanup_tmp() {
    let _ = std::fs::remove_dir_all(tmp_dir());
}
fn next_file(tag: &str) -> PathBuf {
    static N: std::sync::atomic::AtomicU64 = std::sync::atomic::AtomicU64::new(0);
    let n = N.fetch_add(1, std::sync::atomic::Ordering::Relaxed);
    tmp_dir().join(format!("{}-{}.txt", tag, n % 64))
}

// --------------------------------------------------------------------------------------------
// panic capture

static LAST_PANIC: Mutex<Option<String>> = Mutex::new(None);

pub fn install_quiet_panic_hook() {
    std::panic::set_hook(Box::new(|info| {
        let msg = if let Some(s) = info.payload().downcast_ref::<&str>() {
            s.to_string()
        } else if let Some(s) = info.payload().downcast_ref::<String>() {
            s.clone()
        } else {
            "panic".to_string()
        };
        let loc = info.location().map(|l| format!("{}:{}", l.file(), l.line())).unwrap_or_default();
        if let Ok(mut g) = LAST_PANIC.lock() {
            *g = Some(format!("{} @ {}", msg, loc));
        }
    }));
}
pub fn take_last_panic() -> Option<String> {
    LAST_PANIC.lock().ok().and_then(|mut g| g.take())
}

#[derive(Debug, Clone, PartialEq, Eq)]
pub enum RunErr {
    Panic(String),
    Io(String),
}

/// Runs the real reader thread over `data` (written to a temp file) on `table`.
pub fn run_bytes(opts: &Opts, table: &Table, data: &[u8]) -> Result<(), RunErr> {
    let path = next_file("in");
    {
        let mut f = std::fs::File::create(&path).map_err(|e| RunErr::Io(e.to_string()))?;
        f.write_all(data).map_err(|e| RunErr::Io(e.to_string()))?;
    }
    let src = path.to_string_lossy().to_string();
    let args = Arc::new(opts.args(&src));
    let planes = Planes { aircrafts: table.clone() };
    let h = squitterator::spawn_reader_thread(args, planes);
    watch_begin(opts, &path);
    let joined = h.join();
    watch_end();
    let r = match joined {
        Ok(Ok(())) => Ok(()),
        Ok(Err(e)) => Err(RunErr::Io(e.to_string())),
        Err(_) => Err(RunErr::Panic(take_last_panic().unwrap_or_else(|| "panic".into()))),
    };
    if table.is_poisoned() {
        table.clear_poison();
    }
    r
}

// --------------------------------------------------------------------------------------------
// termination watchdog
//
// A reader run on a finite file normally ends within milliseconds. The watchdog thread looks at the run the main
// thread is currently joined on and declares it wedged only on evidence that does not depend on machine load:
//   deadlock  - the run is older than 30 s, the process burnt < 0.2 s of CPU over the last 20 s and every other
//               thread sleeps (state S: blocked on a lock; a thread starved of CPU would be runnable, state R);
//   livelock  - the run alone has burnt more than 600 s of CPU.
// Anything else keeps waiting (the driver's budget then ends the worker as inconclusive).

struct Watched {
    since: std::time::Instant,
    cpu0: f64,
    opts: Opts,
    input: PathBuf,
}
static WATCHED: Mutex<Option<Watched>> = Mutex::new(None);
type HangFn = Box<dyn Fn(&Opts, &[u8], &str) + Send + Sync>;
static ON_HANG: Mutex<Option<HangFn>> = Mutex::new(None);

static SAVED_STDOUT: std::sync::atomic::AtomicI32 = std::sync::atomic::AtomicI32::new(-1);
/// the replay command parks the real stdout here while the code under test runs, so that the watchdog can still report
pub fn set_saved_stdout(fd: i32) {
    SAVED_STDOUT.store(fd, std::sync::atomic::Ordering::SeqCst);
}
pub fn saved_stdout() -> Option<i32> {
    let fd = SAVED_STDOUT.load(std::sync::atomic::Ordering::SeqCst);
    (fd >= 0).then_some(fd)
}

fn process_cpu_s() -> f64 {
    let mut ts = libc::timespec { tv_sec: 0, tv_nsec: 0 };
    unsafe { libc::clock_gettime(libc::CLOCK_PROCESS_CPUTIME_ID, &mut ts) };
    ts.tv_sec as f64 + ts.tv_nsec as f64 * 1e-9
}

fn watch_begin(opts: &Opts, input: &std::path::Path) {
    if let Ok(mut g) = WATCHED.lock() {
        *g = Some(Watched { since: std::time::Instant::now(), cpu0: process_cpu_s(), opts: opts.clone(), input: input.to_path_buf() });
    }
}
fn watch_end() {
    if let Ok(mut g) = WATCHED.lock() {
        *g = None;
    }
}

/// states of all threads of this process except the calling one
fn other_thread_states() -> Vec<char> {
    let me = unsafe { libc::syscall(libc::SYS_gettid) } as i64;
    let mut v = Vec::new();
    if let Ok(rd) = std::fs::read_dir("/proc/self/task") {
        for e in rd.filter_map(|e| e.ok()) {
            if e.file_name().to_string_lossy().parse::<i64>().ok() == Some(me) {
                continue;
            }
            if let Ok(s) = std::fs::read_to_string(e.path().join("stat")) {
                if let Some(i) = s.rfind(')') {
                    if let Some(ch) = s[i + 1..].trim_start().chars().next() {
                        v.push(ch);
                    }
                }
            }
        }
    }
    v
}

/// Starts the watchdog thread; `on_hang(opts, input bytes, verdict)` is called once, from the watchdog thread,
/// and is expected to end the process.
pub fn install_watchdog(on_hang: HangFn) {
    if let Ok(mut g) = ON_HANG.lock() {
        if g.is_some() {
            return;
        }
        *g = Some(on_hang);
    }
    std::thread::spawn(|| {
        let mut cpu_hist: std::collections::VecDeque<f64> = std::collections::VecDeque::new();
        let mut quiet_ticks = 0;
        loop {
            std::thread::sleep(std::time::Duration::from_secs(1));
            let now_cpu = process_cpu_s();
            cpu_hist.push_back(now_cpu);
            if cpu_hist.len() > 21 {
                cpu_hist.pop_front();
            }
            let verdict = {
                let Ok(g) = WATCHED.lock() else { continue };
                match g.as_ref() {
                    None => {
                        quiet_ticks = 0;
                        None
                    }
                    Some(w) => {
                        let age = w.since.elapsed().as_secs_f64();
                        let burnt = now_cpu - w.cpu0;
                        let idle = cpu_hist.len() == 21 && now_cpu - cpu_hist[0] < 0.2;
                        let states = other_thread_states();
                        if age > 30.0 && idle && !states.is_empty() && states.iter().all(|s| *s == 'S') {
                            quiet_ticks += 1;
                        } else {
                            quiet_ticks = 0;
                        }
                        if quiet_ticks >= 5 {
                            Some((format!("deadlock: no progress for {:.0} s, all threads blocked, {:.2} s of CPU used by the run", age, burnt), w.opts.clone(), w.input.clone()))
                        } else if burnt > 600.0 {
                            Some((format!("livelock: {:.0} s of CPU burnt on one finite input without finishing", burnt), w.opts.clone(), w.input.clone()))
                        } else {
                            None
                        }
                    }
                }
            };
            if let Some((v, opts, input)) = verdict {
                let data = std::fs::read(&input).unwrap_or_default();
                if let Ok(g) = ON_HANG.lock() {
                    if let Some(f) = g.as_ref() {
                        f(&opts, &data, &v);
                    }
                }
                std::process::exit(3);
            }
        }
    });
}

pub fn run_lines<S: AsRef<str>>(opts: &Opts, table: &Table, lines: &[S]) -> Result<(), RunErr> {
    let mut buf = Vec::with_capacity(lines.len() * 30);
    for l in lines {
        buf.extend_from_slice(l.as_ref().as_bytes());
        buf.push(b'\n');
    }
    run_bytes(opts, table, &buf)
}

pub fn new_table() -> Table {
    Arc::new(RwLock::new(HashMap::new()))
}

// --------------------------------------------------------------------------------------------
// snapshots

#[derive(Clone, Debug, PartialEq, Serialize, Deserialize)]
pub struct Snap {
    pub icao: u32,
    pub cap0: u32,
    pub cap_flags: u32,
    pub cap_b: [bool; 5],
    pub category: (u32, u32),
    pub reg: String,
    pub ais: Option<String>,
    pub altitude: Option<u32>,
    pub altitude_gnss: Option<u32>,
    pub altitude_source: char,
    pub selected_altitude: Option<u32>,
    pub baro_setting: Option<u32>,
    pub target_altitude_source: char,
    pub squawk: Option<u32>,
    pub surveillance_status: char,
    pub threat: Option<char>,
    pub vrate: Option<i32>,
    pub vrate_source: char,
    pub cpr_lat: [u32; 2],
    pub cpr_lon: [u32; 2],
    pub lat: u64,
    pub lon: u64,
    pub dist: Option<u64>,
    pub grspeed: Option<u32>,
    pub tas: Option<u32>,
    pub ias: Option<u32>,
    pub mach: Option<u64>,
    pub ground_movement: Option<u64>,
    pub turn: u32,
    pub track: Option<u32>,
    pub track_source: char,
    pub heading: Option<u32>,
    pub heading_source: char,
    pub roll: Option<i32>,
    pub tar: Option<i32>,
    pub temperature: Option<u64>,
    pub wind: Option<(u32, u32)>,
    pub turbulence: Option<u32>,
    pub humidity: Option<u32>,
    pub pressure: Option<u32>,
    pub last_type_code: u32,
    pub last_df: u32,
    pub adsb_version: Option<u32>,
    // wall-clock fields (micros since epoch)
    pub timestamp: i64,
    pub cpr_time: [i64; 2],
    pub position_ts: Option<i64>,
    pub track_ts: Option<i64>,
    pub heading_ts: Option<i64>,
    pub bds50_ts: Option<i64>,
}

impl Snap {
    pub fn of(p: &Plane) -> Snap {
        let ts = |d: &DateTime<Utc>| d.timestamp_micros();
        Snap {
            icao: p.icao,
            cap0: p.capability.0,
            cap_flags: p.capability.1.flags,
            cap_b: [p.capability.1.bds20, p.capability.1.bds40, p.capability.1.bds44, p.capability.1.bds50, p.capability.1.bds60],
            category: p.category,
            reg: p.reg.to_string(),
            ais: p.ais.clone(),
            altitude: p.altitude,
            altitude_gnss: p.altitude_gnss,
            altitude_source: p.altitude_source,
            selected_altitude: p.selected_altitude,
            baro_setting: p.barometric_pressure_setting,
            target_altitude_source: p.target_altitude_source,
            squawk: p.squawk,
            surveillance_status: p.surveillance_status,
            threat: p.threat_encounter,
            vrate: p.vrate,
            vrate_source: p.vrate_source,
            cpr_lat: p.cpr_lat,
            cpr_lon: p.cpr_lon,
            lat: p.lat.to_bits(),
            lon: p.lon.to_bits(),
            dist: p.distance_from_observer.map(f64::to_bits),
            grspeed: p.grspeed,
            tas: p.true_airspeed,
            ias: p.indicated_airspeed,
            mach: p.mach_number.map(f64::to_bits),
            ground_movement: p.ground_movement.map(f64::to_bits),
            turn: p.turn,
            track: p.track,
            track_source: p.track_source,
            heading: p.heading,
            heading_source: p.heading_source,
            roll: p.roll_angle,
            tar: p.track_angle_rate,
            temperature: p.temperature.map(f64::to_bits),
            wind: p.wind,
            turbulence: p.turbulence,
            humidity: p.humidity,
            pressure: p.pressure,
            last_type_code: p.last_type_code,
            last_df: p.last_df,
            adsb_version: p.adsb_version,
            timestamp: ts(&p.timestamp),
            cpr_time: [ts(&p.cpr_time[0]), ts(&p.cpr_time[1])],
            position_ts: p.position_timestamp.as_ref().map(ts),
            track_ts: p.track_timestamp.as_ref().map(ts),
            heading_ts: p.heading_timestamp.as_ref().map(ts),
            bds50_ts: p.bds_5_0_timestamp.as_ref().map(ts),
        }
    }
    pub fn lat_f(&self) -> f64 {
        f64::from_bits(self.lat)
    }
    pub fn lon_f(&self) -> f64 {
        f64::from_bits(self.lon)
    }
    pub fn dist_f(&self) -> Option<f64> {
        self.dist.map(f64::from_bits)
    }
    pub fn mach_f(&self) -> Option<f64> {
        self.mach.map(f64::from_bits)
    }
    /// copy with all wall-clock stamps zeroed
    pub fn no_clock(&self) -> Snap {
        let mut s = self.clone();
        s.timestamp = 0;
        s.cpr_time = [0, 0];
        s.position_ts = s.position_ts.map(|_| 0);
        s.track_ts = s.track_ts.map(|_| 0);
        s.heading_ts = s.heading_ts.map(|_| 0);
        s.bds50_ts = s.bds50_ts.map(|_| 0);
        s
    }
    /// names of the fields that differ
    pub fn diff(&self, other: &Snap) -> Vec<String> {
        let a = serde_json::to_value(self).unwrap();
        let b = serde_json::to_value(other).unwrap();
        let mut out = Vec::new();
        if let (Some(a), Some(b)) = (a.as_object(), b.as_object()) {
            for (k, v) in a {
                if b.get(k) != Some(v) {
                    out.push(format!("{}: {} -> {}", k, v, b.get(k).cloned().unwrap_or_default()));
                }
            }
        }
        out
    }
}

pub type TableSnap = BTreeMap<u32, Snap>;

pub fn snapshot(table: &Table) -> TableSnap {
    let g = match table.read() {
        Ok(g) => g,
        Err(p) => p.into_inner(),
    };
    g.iter().map(|(k, v)| (*k, Snap::of(v))).collect()
}
pub fn no_clock(t: &TableSnap) -> TableSnap {
    t.iter().map(|(k, v)| (*k, v.no_clock())).collect()
}
pub fn table_diff(a: &TableSnap, b: &TableSnap) -> Vec<String> {
    let mut out = Vec::new();
    for (k, v) in a {
        match b.get(k) {
            None => out.push(format!("row {:06X} only in first", k)),
            Some(w) => {
                for d in v.diff(w) {
                    out.push(format!("row {:06X} {}", k, d));
                }
            }
        }
    }
    for k in b.keys() {
        if !a.contains_key(k) {
            out.push(format!("row {:06X} only in second", k));
        }
    }
    out
}

/// Simulated elapsed time: move every stored time stamp of every row `secs` seconds into the past.
pub fn shift_time(table: &Table, secs: i64) {
    shift_time_ms(table, secs * 1000)
}

/// the same with millisecond resolution
pub fn shift_time_ms(table: &Table, ms: i64) {
    if ms == 0 {
        return;
    }
    let d = Duration::milliseconds(ms);
    let mut g = match table.write() {
        Ok(g) => g,
        Err(p) => p.into_inner(),
    };
    for p in g.values_mut() {
        p.timestamp -= d;
        p.cpr_time[0] -= d;
        p.cpr_time[1] -= d;
        if let Some(t) = p.position_timestamp.as_mut() { *t -= d; }
        if let Some(t) = p.track_timestamp.as_mut() { *t -= d; }
        if let Some(t) = p.heading_timestamp.as_mut() { *t -= d; }
        if let Some(t) = p.bds_5_0_timestamp.as_mut() { *t -= d; }
    }
}

// --------------------------------------------------------------------------------------------
// stdout handling: workers send fd 1 to /dev/null; `capture_stdout` diverts it to a file for a closure

pub fn silence_stdout() {
    if let Ok(f) = std::fs::OpenOptions::new().write(true).open("/dev/null") {
        unsafe {
            libc::dup2(f.as_raw_fd(), 1);
        }
    }
}

pub fn capture_stdout<F: FnOnce()>(f: F) -> String {
    let path = tmp_dir().join(format!("cap-{:?}.txt", std::thread::current().id()));
    let file = std::fs::File::create(&path).expect("capture file");
    let _ = std::io::stdout().flush();
    let saved = unsafe { libc::dup(1) };
    unsafe {
        libc::dup2(file.as_raw_fd(), 1);
    }
    let r = std::panic::catch_unwind(std::panic::AssertUnwindSafe(f));
    let _ = std::io::stdout().flush();
    unsafe {
        libc::dup2(saved, 1);
        libc::close(saved);
    }
    drop(file);
    let out = std::fs::read(&path).unwrap_or_default();
    if let Err(e) = r {
        std::panic::resume_unwind(e);
    }
    String::from_utf8_lossy(&out).to_string()
}

/// Runs the reader like `run_bytes` while capturing everything it prints
pub fn run_bytes_captured(opts: &Opts, table: &Table, data: &[u8]) -> (Result<(), RunErr>, String) {
    let mut res = Ok(());
    let out = capture_stdout(|| {
        res = run_bytes(opts, table, data);
    });
    (res, out)
}
