//! Reference decoders written from the standards (Annex 10 Vol IV, Doc 9871, DO-260B).
//! Nothing here calls the code under test.

/// Result of decoding an altitude code
#[derive(Clone, Copy, Debug, PartialEq, Eq)]
pub enum Alt {
    Blank,
    Feet(u32),
    Unconstrained, // M = 1
}

/// Gillham (Mode C) decode from the named pulses.  Returns altitude in feet or None when illegal / negative.
#[allow(clippy::too_many_arguments)]
pub fn gillham(c1: u32, a1: u32, c2: u32, a2: u32, c4: u32, a4: u32, b1: u32, d1: u32, b2: u32, d2: u32, b4: u32, d4: u32) -> Option<i32> {
    // 100-ft part: C1 C2 C4 Gray code
    let c_gray = (c1 << 2) | (c2 << 1) | c4;
    if c_gray == 0 {
        return None; // illegal
    }
    let mut one = gray_to_bin(c_gray, 3);
    // legal decoded values: 1,2,3,4 and 7 (7 stands for 5); 5 and 6 are illegal
    if one == 5 || one == 6 {
        return None;
    }
    if one == 7 {
        one = 5;
    }
    // 500-ft part: D1 D2 D4 A1 A2 A4 B1 B2 B4 Gray code
    let g = (d1 << 8) | (d2 << 7) | (d4 << 6) | (a1 << 5) | (a2 << 4) | (a4 << 3) | (b1 << 2) | (b2 << 1) | b4;
    let five = gray_to_bin(g, 9);
    if five & 1 == 1 {
        one = 6 - one;
    }
    let alt = (five as i32) * 500 + (one as i32) * 100 - 1300;
    Some(alt)
}

pub fn gray_to_bin(g: u32, nbits: u32) -> u32 {
    let mut b = 0;
    let mut acc = 0;
    for i in (0..nbits).rev() {
        acc ^= (g >> i) & 1;
        b |= acc << i;
    }
    b
}

/// 13-bit altitude code (DF0/4/16/20): C1 A1 C2 A2 C4 A4 M B1 Q B2 D2 B4 D4
pub fn alt_ac13(ac: u32) -> Alt {
    let bit = |i: u32| (ac >> (12 - i)) & 1; // i = 0 first transmitted
    if ac & 0x1FFF == 0 {
        return Alt::Blank;
    }
    let m = bit(6);
    let q = bit(8);
    if m == 1 {
        return Alt::Unconstrained;
    }
    if q == 1 {
        let n = ((ac >> 7) & 0x3F) << 5 | ((ac >> 5) & 1) << 4 | (ac & 0xF);
        let v = 25 * n as i32 - 1000;
        if v >= 0 { Alt::Feet(v as u32) } else { Alt::Blank }
    } else {
        // D1 is the Q position, hence 0
        match gillham(bit(0), bit(1), bit(2), bit(3), bit(4), bit(5), bit(7), 0, bit(9), bit(10), bit(11), bit(12)) {
            Some(v) if v >= 0 => Alt::Feet(v as u32),
            _ => Alt::Blank,
        }
    }
}

/// 12-bit altitude code of an airborne position squitter: C1 A1 C2 A2 C4 A4 B1 Q B2 D2 B4 D4
pub fn alt_ac12(ac: u32) -> Alt {
    let bit = |i: u32| (ac >> (11 - i)) & 1;
    if ac & 0xFFF == 0 {
        return Alt::Blank;
    }
    let q = bit(7);
    if q == 1 {
        let n = ((ac >> 5) << 4) | (ac & 0xF);
        let v = 25 * n as i32 - 1000;
        if v >= 0 { Alt::Feet(v as u32) } else { Alt::Blank }
    } else {
        match gillham(bit(0), bit(1), bit(2), bit(3), bit(4), bit(5), bit(6), 0, bit(8), bit(9), bit(10), bit(11)) {
            Some(v) if v >= 0 => Alt::Feet(v as u32),
            _ => Alt::Blank,
        }
    }
}

/// identity code -> four octal digits written as a decimal number ABCD
pub fn squawk_id13(id: u32) -> u32 {
    let bit = |i: u32| (id >> (12 - i)) & 1; // C1 A1 C2 A2 C4 A4 X B1 D1 B2 D2 B4 D4
    let a = bit(5) << 2 | bit(3) << 1 | bit(1);
    let b = bit(11) << 2 | bit(9) << 1 | bit(7);
    let c = bit(4) << 2 | bit(2) << 1 | bit(0);
    let d = bit(12) << 2 | bit(10) << 1 | bit(8);
    a * 1000 + b * 100 + c * 10 + d
}

/// callsign characters: 1-26 -> A-Z, 48-57 -> 0-9, everything else omitted
pub fn callsign(chars: &[u8; 8]) -> String {
    chars
        .iter()
        .filter_map(|&c| match c {
            1..=26 => Some((b'A' + c - 1) as char),
            48..=57 => Some(c as char),
            _ => None,
        })
        .collect()
}
pub fn chars_of_me(me: u64) -> [u8; 8] {
    let mut out = [0u8; 8];
    for (i, o) in out.iter_mut().enumerate() {
        let shift = 56 - (9 + 6 * i as u32 + 5);
        *o = ((me >> shift) & 63) as u8;
    }
    out
}
pub fn wake_letter(tc: u32, ca: u32) -> Option<char> {
    match (tc, ca) {
        (4, 1) => Some('L'),
        (4, 2) => Some('S'),
        (4, 3) => Some('M'),
        (4, 4) => Some('H'),
        (4, 5) => Some('J'),
        (4, 7) => Some('R'),
        _ => None,
    }
}

// ---------------------------------------------------------------------------------------------
// CPR (DO-260B A.1.7)

pub const NB17: f64 = 131072.0;

/// number of longitude zones, closed form
pub fn nl(lat: f64) -> i32 {
    let lat = lat.abs();
    if lat == 0.0 {
        return 59;
    }
    if lat == 87.0 {
        return 2;
    }
    if lat > 87.0 {
        return 1;
    }
    let nz = 15.0f64;
    let a = 1.0 - (std::f64::consts::PI / (2.0 * nz)).cos();
    let b = (std::f64::consts::PI / 180.0 * lat).cos().powi(2);
    let x = 1.0 - a / b;
    (2.0 * std::f64::consts::PI / x.acos()).floor() as i32
}

/// The latitude at which NL changes from n to n-1 (n = 2..59)
pub fn nl_boundary(n: i32) -> f64 {
    let nz = 15.0f64;
    let a = 1.0 - (std::f64::consts::PI / (2.0 * nz)).cos();
    let c = 1.0 - (2.0 * std::f64::consts::PI / n as f64).cos();
    (a / c).sqrt().acos().to_degrees()
}

fn fmod_pos(a: f64, b: f64) -> f64 {
    a - b * (a / b).floor()
}

/// airborne CPR encode: returns (YZ, XZ, Rlat, Rlon)
pub fn cpr_encode(lat: f64, lon: f64, odd: bool) -> (u32, u32, f64, f64) {
    let i = if odd { 1.0 } else { 0.0 };
    let dlat = 360.0 / (60.0 - i);
    let yz = (NB17 * fmod_pos(lat, dlat) / dlat + 0.5).floor();
    let rlat = dlat * (yz / NB17 + (lat / dlat).floor());
    let nli = nl(rlat) as f64 - i;
    let dlon = if nli > 0.0 { 360.0 / nli } else { 360.0 };
    let xz = (NB17 * fmod_pos(lon, dlon) / dlon + 0.5).floor();
    let rlon = dlon * (xz / NB17 + (lon / dlon).floor());
    let yzm = (yz as u64 % 131072) as u32;
    let xzm = (xz as u64 % 131072) as u32;
    (yzm, xzm, rlat, rlon)
}

/// textbook global decode; `newest_odd` tells which frame anchors the result. None when the zones differ.
pub fn cpr_global(lat0: u32, lon0: u32, lat1: u32, lon1: u32, newest_odd: bool) -> Option<(f64, f64)> {
    let dlat0 = 360.0 / 60.0;
    let dlat1 = 360.0 / 59.0;
    let j = ((59.0 * lat0 as f64 - 60.0 * lat1 as f64) / NB17 + 0.5).floor();
    let mut rlat0 = dlat0 * (fmod_pos(j, 60.0) + lat0 as f64 / NB17);
    let mut rlat1 = dlat1 * (fmod_pos(j, 59.0) + lat1 as f64 / NB17);
    if rlat0 >= 270.0 {
        rlat0 -= 360.0;
    }
    if rlat1 >= 270.0 {
        rlat1 -= 360.0;
    }
    if !(-90.0..=90.0).contains(&rlat0) || !(-90.0..=90.0).contains(&rlat1) {
        return None;
    }
    if nl(rlat0) != nl(rlat1) {
        return None;
    }
    let (rlat, lonc, i) = if newest_odd { (rlat1, lon1, 1) } else { (rlat0, lon0, 0) };
    let nlv = nl(rlat);
    let ni = std::cmp::max(nlv - i, 1);
    let m = ((lon0 as f64 * (nlv - 1) as f64 - lon1 as f64 * nlv as f64) / NB17 + 0.5).floor();
    let mut lon = (360.0 / ni as f64) * (fmod_pos(m, ni as f64) + lonc as f64 / NB17);
    if lon >= 180.0 {
        lon -= 360.0;
    }
    Some((rlat, lon))
}

pub fn haversine_km(lat1: f64, lon1: f64, lat2: f64, lon2: f64) -> f64 {
    let r = 6371.0;
    let (p1, p2) = (lat1.to_radians(), lat2.to_radians());
    let dp = p2 - p1;
    let dl = (lon2 - lon1).to_radians();
    let a = (dp / 2.0).sin().powi(2) + p1.cos() * p2.cos() * (dl / 2.0).sin().powi(2);
    2.0 * r * a.sqrt().min(1.0).asin()
}

/// great-circle distance by the spherical law of cosines / vector form (independent of haversine)
pub fn gc_km_vec(lat1: f64, lon1: f64, lat2: f64, lon2: f64) -> f64 {
    let v = |la: f64, lo: f64| {
        let (la, lo) = (la.to_radians(), lo.to_radians());
        (la.cos() * lo.cos(), la.cos() * lo.sin(), la.sin())
    };
    let a = v(lat1, lon1);
    let b = v(lat2, lon2);
    let cross = (a.1 * b.2 - a.2 * b.1, a.2 * b.0 - a.0 * b.2, a.0 * b.1 - a.1 * b.0);
    let cn = (cross.0 * cross.0 + cross.1 * cross.1 + cross.2 * cross.2).sqrt();
    let dot = a.0 * b.0 + a.1 * b.1 + a.2 * b.2;
    6371.0 * cn.atan2(dot)
}

// ---------------------------------------------------------------------------------------------
// TC19 velocity

#[derive(Clone, Debug, PartialEq)]
pub struct VelRef {
    /// None = no information
    pub gs_exact: Option<u32>, // subsonic: exact; supersonic: 4*floor(sqrt) reference, tolerance 4
    pub gs_tol: u32,
    /// acceptable integer tracks (floor(theta +- 1e-9) mod 360)
    pub track: Option<Vec<u32>>,
    pub vrate: Option<i32>,
}

pub fn isqrt(n: u64) -> u64 {
    if n == 0 {
        return 0;
    }
    let mut x = (n as f64).sqrt() as u64;
    while x * x > n {
        x -= 1;
    }
    while (x + 1) * (x + 1) <= n {
        x += 1;
    }
    x
}

pub fn velocity_ref(sub: u32, s_ew: u32, v_ew: u32, s_ns: u32, v_ns: u32, s_vr: u32, vr: u32) -> VelRef {
    let supersonic = sub == 2;
    let (gs_exact, track) = if v_ew == 0 || v_ns == 0 {
        (None, None)
    } else {
        let ew = (v_ew as i64 - 1) * if s_ew == 1 { -1 } else { 1 };
        let ns = (v_ns as i64 - 1) * if s_ns == 1 { -1 } else { 1 };
        let sq = (ew * ew + ns * ns) as u64;
        let g = isqrt(sq) as u32;
        let gs = if supersonic { g * 4 } else { g };
        let theta = (ew as f64).atan2(ns as f64).to_degrees();
        let mut acc = Vec::new();
        if ew == 0 && ns == 0 {
            // zero speed: the direction of a null vector is not defined (atan2(+-0, +-0)); any track is accepted
            acc.extend(0..360u32);
        }
        for d in [-1e-9, 0.0, 1e-9] {
            let t = (((theta + d).floor() as i64 % 360) + 360) % 360;
            let t = t as u32;
            if !acc.contains(&t) {
                acc.push(t);
            }
        }
        (Some(gs), Some(acc))
    };
    let vrate = if vr == 0 { None } else { Some(64 * (vr as i32 - 1) * if s_vr == 1 { -1 } else { 1 }) };
    VelRef { gs_exact, gs_tol: if supersonic { 4 } else { 0 }, track, vrate }
}

// ---------------------------------------------------------------------------------------------
// Comm-B registers (Doc 9871).  MB is a 56-bit field, MB bit 1 = frame bit 33.

pub fn mb_get(mb: u64, sb: u32, eb: u32) -> u64 {
    let width = eb - sb + 1;
    (mb >> (56 - eb)) & ((1u64 << width) - 1)
}
pub fn mb_set(mb: &mut u64, sb: u32, eb: u32, v: u64) {
    let width = eb - sb + 1;
    let shift = 56 - eb;
    let mask = ((1u64 << width) - 1) << shift;
    *mb = (*mb & !mask) | ((v << shift) & mask);
}

/// BDS 1,7 : common-usage GICB capability report
#[derive(Clone, Copy, Debug, PartialEq, Eq, Default)]
pub struct Adv {
    pub b40: bool,
    pub b50: bool,
    pub b60: bool,
}
/// recognised as 1,7 when bit 7 (BDS 2,0) is set and bits 29..56 are zero
pub fn is_bds17(mb: u64) -> Option<Adv> {
    if mb_get(mb, 7, 7) == 1 && mb_get(mb, 29, 56) == 0 {
        Some(Adv { b40: mb_get(mb, 9, 9) == 1, b50: mb_get(mb, 16, 16) == 1, b60: mb_get(mb, 24, 24) == 1 })
    } else {
        None
    }
}

#[derive(Clone, Debug, PartialEq)]
pub struct B40 {
    pub mcp: u32,
    pub fms: u32,
    pub baro: u32,
}
/// status bits 1, 14, 27 set; reserved 40..47 and 52..53 zero
pub fn bds40_strict(mb: u64) -> Option<B40> {
    if mb_get(mb, 1, 1) == 1 && mb_get(mb, 14, 14) == 1 && mb_get(mb, 27, 27) == 1 && mb_get(mb, 40, 47) == 0 && mb_get(mb, 52, 53) == 0 {
        Some(B40 { mcp: (mb_get(mb, 2, 13) * 16) as u32, fms: (mb_get(mb, 15, 26) * 16) as u32, baro: (mb_get(mb, 28, 39) / 10 + 800) as u32 })
    } else {
        None
    }
}

#[derive(Clone, Debug, PartialEq)]
pub struct B50 {
    /// exact values in the units of Doc 9871 (not truncated)
    pub roll: f64,
    pub track: f64,
    pub gs: u32,
    pub rate: f64,
    pub tas: u32,
}
pub fn bds50_status(mb: u64) -> bool {
    mb_get(mb, 1, 1) == 1 && mb_get(mb, 12, 12) == 1 && mb_get(mb, 24, 24) == 1 && mb_get(mb, 35, 35) == 1 && mb_get(mb, 46, 46) == 1
}
pub fn bds50_decode(mb: u64) -> B50 {
    let sroll = mb_get(mb, 2, 2) as i64;
    let roll_raw = mb_get(mb, 3, 11) as i64 - 512 * sroll;
    let strk = mb_get(mb, 13, 13) as i64;
    let trk_raw = mb_get(mb, 14, 23) as i64 - 1024 * strk;
    let mut track = trk_raw as f64 * 90.0 / 512.0;
    if track < 0.0 {
        track += 360.0;
    }
    let srate = mb_get(mb, 36, 36) as i64;
    let rate_raw = mb_get(mb, 37, 45) as i64 - 512 * srate;
    B50 {
        roll: roll_raw as f64 * 45.0 / 256.0,
        track,
        gs: (mb_get(mb, 25, 34) * 2) as u32,
        rate: rate_raw as f64 * 8.0 / 256.0,
        tas: (mb_get(mb, 47, 56) * 2) as u32,
    }
}

#[derive(Clone, Debug, PartialEq)]
pub struct B60 {
    pub hdg: f64,
    pub ias: u32,
    pub mach: f64,
    pub baro_rate: i32,
    pub ivv: i32,
    pub baro_raw_mag: u32,
    pub ivv_raw_mag: u32,
}
pub fn bds60_status(mb: u64) -> bool {
    mb_get(mb, 1, 1) == 1 && mb_get(mb, 13, 13) == 1 && mb_get(mb, 24, 24) == 1 && mb_get(mb, 35, 35) == 1 && mb_get(mb, 46, 46) == 1
}
pub fn bds60_decode(mb: u64) -> B60 {
    let sh = mb_get(mb, 2, 2) as i64;
    let h_raw = mb_get(mb, 3, 12) as i64 - 1024 * sh;
    let mut hdg = h_raw as f64 * 90.0 / 512.0;
    if hdg < 0.0 {
        hdg += 360.0;
    }
    let sb = mb_get(mb, 36, 36) as i64;
    let b_raw = mb_get(mb, 37, 45) as i64 - 512 * sb;
    let si = mb_get(mb, 47, 47) as i64;
    let i_raw = mb_get(mb, 48, 56) as i64 - 512 * si;
    B60 {
        hdg,
        ias: mb_get(mb, 14, 23) as u32,
        mach: mb_get(mb, 25, 34) as f64 * 2.048 / 512.0,
        baro_rate: (b_raw * 32) as i32,
        ivv: (i_raw * 32) as i32,
        baro_raw_mag: mb_get(mb, 37, 45) as u32,
        ivv_raw_mag: mb_get(mb, 48, 56) as u32,
    }
}

/// integer truncations accepted for a signed/unsigned real (rule 2 of DESIGN §5)
pub fn int_ok(observed: i64, exact: f64) -> bool {
    observed == exact.floor() as i64 || observed == exact.trunc() as i64
}

#[cfg(test)]
mod tests {
    use super::*;
    #[test]
    fn gillham_examples() {
        // from the analysis of the pinned vectors: C1=1,A2=1 -> 14300 ft ; C1=1,B2=1,B4=1 -> 200 ft
        assert_eq!(alt_ac13(0b1_0010_0000_0000), Alt::Feet(14300));
        assert_eq!(alt_ac13(0b1_0000_0000_1010), Alt::Feet(200));
        // -1000 ft is the lowest legal Gillham code (C4 only... ) : 000000000010 => C4=1? check monotone table instead
        let mut seen = std::collections::BTreeMap::new();
        for code in 0..8192u32 {
            if (code >> 6) & 1 == 1 || (code >> 4) & 1 == 1 { continue; }
            if let Some(v) = {
                let bit = |i: u32| (code >> (12 - i)) & 1;
                gillham(bit(0), bit(1), bit(2), bit(3), bit(4), bit(5), bit(7), 0, bit(9), bit(10), bit(11), bit(12))
            } {
                assert!(seen.insert(v, code).is_none(), "duplicate altitude {}", v);
                assert_eq!(v.rem_euclid(100), 0);
            }
        }
        // D1=0: 2^8 500-ft steps x 5 = 1280 legal codes, consecutive from -1200
        assert_eq!(seen.len(), 1280);
        let keys: Vec<i32> = seen.keys().cloned().collect();
        assert_eq!(keys[0], -1200);
        for w in keys.windows(2) { assert_eq!(w[1] - w[0], 100); }
    }
    #[test]
    fn q1() {
        assert_eq!(alt_ac13(crate::bits::ac13_q1(40)), Alt::Feet(0));
        assert_eq!(alt_ac13(crate::bits::ac13_q1(39)), Alt::Blank);
        assert_eq!(alt_ac13(crate::bits::ac13_q1(1560)), Alt::Feet(38000));
        assert_eq!(alt_ac12(crate::bits::ac12_q1(1560)), Alt::Feet(38000));
        assert_eq!(alt_ac12(0xC38), Alt::Feet(38000)); // 8D40621D58C382D690C8AC2863A7
    }
    #[test]
    fn squawk() {
        for (a, b, c, d) in [(7, 7, 0, 0), (1, 2, 3, 4), (0, 0, 0, 0), (7, 5, 0, 0), (2, 0, 0, 0)] {
            let id = crate::bits::id13_from_squawk(a, b, c, d, 0);
            assert_eq!(squawk_id13(id), a * 1000 + b * 100 + c * 10 + d);
        }
    }
    #[test]
    fn cpr_example() {
        // 8D40621D58C382D690C8AC2863A7 (even) / 8D40621D58C386435CC412692AD6 (odd) -> 52.2572, 3.91937
        let (la, lo) = cpr_global(93000, 51372, 74158, 50194, false).unwrap();
        assert!((la - 52.2572).abs() < 1e-4 && (lo - 3.91937).abs() < 1e-4, "{} {}", la, lo);
        for n in 2..=59 {
            let b = nl_boundary(n);
            assert_eq!(nl(b - 1e-7), n, "below boundary {}", n);
            assert_eq!(nl(b + 1e-7), n - 1, "above boundary {}", n);
        }
        let (yz, xz, _, _) = cpr_encode(52.2572, 3.91937, false);
        assert!((yz as i64 - 93000).abs() <= 1 && (xz as i64 - 51372).abs() <= 1, "{} {}", yz, xz);
    }
    #[test]
    fn vel() {
        // 8DC06A75990D0628B0040C8AA788 : pinned 416 kt / 321 deg
        let r = velocity_ref(1, 1, 0b0100001101 - 0, 0, 0, 0, 0);
        let _ = r;
    }
}
