//! Driving the built command-line program.

use crate::run::Opts;
use std::io::Read;
use std::path::PathBuf;
use std::process::{Command, Stdio};
use std::time::{Duration, Instant};

pub fn cli_path(release: bool) -> PathBuf {
    let root = std::env::var("VERIF_ROOT").unwrap_or_else(|_| "/verif".into());
    PathBuf::from(root).join("target").join("cli").join(if release { "release" } else { "debug" }).join("squitterator")
}

pub fn cli_args(opts: &Opts) -> Vec<String> {
    let mut a = Vec::new();
    if opts.u { a.push("-U".to_string()); }
    if opts.r { a.push("-R".to_string()); }
    if opts.c { a.push("-c".to_string()); }
    if let Some(f) = &opts.f {
        for x in f {
            a.push("-f".into());
            a.push(x.to_string());
        }
    }
    for i in &opts.i {
        a.push("-i".into());
        a.push(i.clone());
    }
    for o in &opts.o {
        a.push("-o".into());
        a.push(o.clone());
    }
    a.push("-d".into());
    a.push(opts.d.to_string());
    a.push(format!("--update={}", opts.upd));
    if let Some(f) = &opts.fmt {
        a.push("-F".into());
        a.push(f.clone());
    }
    if let Some(m) = &opts.m {
        for x in m {
            a.push("-M".into());
            a.push(x.to_string());
        }
    }
    a
}

#[derive(Debug)]
pub struct CliOut {
    pub status: Option<i32>,
    pub signal: Option<i32>,
    pub stdout: Vec<u8>,
    pub stderr: String,
    pub timed_out: bool,
}

/// runs the CLI on a file source; `extra` are appended verbatim
pub fn run_file(release: bool, opts: &Opts, path: &str, extra: &[String], keep_stdout: bool, timeout: Duration) -> std::io::Result<CliOut> {
    let mut cmd = Command::new(cli_path(release));
    cmd.args(cli_args(opts)).arg("-s").arg(path).args(extra);
    if opts.dl {
        cmd.arg("-D").arg(format!("{}.dl", path));
    }
    cmd.stdin(Stdio::null()).stderr(Stdio::piped());
    let outfile = if keep_stdout {
        let p = format!("{}.out", path);
        cmd.stdout(Stdio::from(std::fs::File::create(&p)?));
        Some(p)
    } else {
        cmd.stdout(Stdio::null());
        None
    };
    let mut ch = cmd.spawn()?;
    let start = Instant::now();
    let mut timed_out = false;
    let status = loop {
        match ch.try_wait()? {
            Some(s) => break s,
            None => {
                if start.elapsed() > timeout {
                    let _ = ch.kill();
                    timed_out = true;
                    break ch.wait()?;
                }
                std::thread::sleep(Duration::from_millis(2));
            }
        }
    };
    let mut stderr = String::new();
    if let Some(mut e) = ch.stderr.take() {
        let mut b = Vec::new();
        let _ = e.read_to_end(&mut b);
        stderr = String::from_utf8_lossy(&b).chars().take(600).collect();
    }
    let stdout = match outfile {
        Some(p) => {
            let b = std::fs::read(&p).unwrap_or_default();
            let _ = std::fs::remove_file(&p);
            b
        }
        None => Vec::new(),
    };
    use std::os::unix::process::ExitStatusExt;
    Ok(CliOut { status: status.code(), signal: status.signal(), stdout, stderr, timed_out })
}

/// One screen refresh of the table
#[derive(Debug, Clone, Default)]
pub struct Refresh {
    pub header: String,
    pub separator: String,
    pub rows: Vec<String>,
    pub footer_separator: Option<String>,
    pub counter_line: Option<String>,
}

pub const CLEAR: &str = "\u{1b}[2J\u{1b}[H\u{1b}[3J";

/// splits captured stdout into refreshes; the legend (first screen) is returned separately
pub fn parse_refreshes(out: &str) -> (Option<String>, Vec<Refresh>) {
    let mut parts: Vec<&str> = out.split(CLEAR).collect();
    if !parts.is_empty() && parts[0].is_empty() {
        parts.remove(0);
    }
    let mut legend = None;
    let mut refreshes = Vec::new();
    for p in parts {
        let lines: Vec<&str> = p.split('\n').collect();
        // a refresh starts with the header (contains "ICAO" right-aligned, and "LC" at the end); the legend has "ICAO      :"
        if lines.first().map(|l| l.contains("ICAO") && l.trim_end().ends_with("LC")).unwrap_or(false) && lines.len() >= 2 && lines[1].starts_with("------") {
            let mut r = Refresh { header: lines[0].to_string(), separator: lines[1].to_string(), ..Default::default() };
            let mut i = 2;
            while i < lines.len() {
                let l = lines[i];
                if l.starts_with("------") && r.footer_separator.is_none() {
                    r.footer_separator = Some(l.to_string());
                } else if r.footer_separator.is_some() {
                    if !l.is_empty() {
                        r.counter_line = Some(l.to_string());
                    }
                } else {
                    r.rows.push(l.to_string());
                }
                i += 1;
            }
            refreshes.push(r);
        } else if legend.is_none() {
            legend = Some(p.to_string());
        }
    }
    (legend, refreshes)
}
