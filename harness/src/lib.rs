pub mod bits;
pub mod ctx;
pub mod icao_table;
pub mod props;
pub mod refdec;
pub mod run;
pub mod gen;
pub mod alphabet;
