//! The alphabet of well-formed frames used by the history properties (C03, C11, C12, C13, C16, C19).

use crate::bits::{self, Frame};
use crate::gen;
use crate::refdec::cpr_encode;
use proptest::prelude::*;

/// airborne position ME from a true position
pub fn airpos_me(tc: u32, ss: u32, ac12: u32, odd: bool, lat: f64, lon: f64) -> u64 {
    let (yz, xz, _, _) = cpr_encode(lat, lon, odd);
    bits::me_airpos(tc, ss, 0, ac12, 0, odd as u32, yz, xz)
}

fn base_pos() -> impl Strategy<Value = (f64, f64)> {
    prop_oneof![
        Just((52.25, 3.92)),
        Just((-33.9, 151.2)),
        Just((10.2, -179.95)),
        Just((64.1, -21.9)),
        (-80.0f64..80.0, -179.0f64..179.0),
    ]
    .prop_flat_map(|(la, lo)| (Just(la), Just(lo), -0.01f64..0.01, -0.01f64..0.01))
    .prop_map(|(la, lo, a, b)| (la + a, lo + b))
}

/// DF17/18 ME fields of every type code
pub fn me_any() -> BoxedStrategy<u64> {
    prop_oneof![
        3 => (1u32..=4, 0u32..8, gen::chars8()).prop_map(|(tc, ca, ch)| bits::me_ident(tc, ca, ch)),
        1 => (1u32..=4, 0u32..8, gen::chars8_pool()).prop_map(|(tc, ca, ch)| bits::me_ident(tc, ca, ch)),
        2 => (5u32..=8, 0u32..128, 0u32..2, 0u32..128, any::<bool>(), base_pos()).prop_map(|(tc, mov, ts, trk, odd, (la, lo))| {
            let (yz, xz, _, _) = cpr_encode(la, lo, odd);
            bits::me_surfpos(tc, mov, ts, trk, 0, odd as u32, yz, xz)
        }),
        6 => (9u32..=18, 0u32..4, gen::ac12_any(), any::<bool>(), base_pos()).prop_map(|(tc, ss, ac, odd, (la, lo))| airpos_me(tc, ss, ac, odd, la, lo)),
        1 => (9u32..=18, 0u32..4, gen::ac12_any(), 0u32..2, prop_oneof![Just(0u32), 0u32..131072], prop_oneof![Just(0u32), 0u32..131072]).prop_map(|(tc, ss, ac, f, la, lo)| bits::me_airpos(tc, ss, 0, ac, 0, f, la, lo)),
        4 => gen::vel_any().prop_map(|v| bits::me_velocity(&v)),
        1 => gen::vel_pool().prop_map(|v| bits::me_velocity(&v)),
        1 => (prop_oneof![Just(3u32), Just(4u32), Just(0u32), Just(5u32), Just(6u32), Just(7u32)], gen::fill64()).prop_map(|(sub, fill)| { let mut m = bits::Me(bits::me_raw(19, fill)); m.set(6, 8, sub as u64); m.0 }),
        1 => (20u32..=22, 0u32..4, 0u32..4096, any::<bool>(), base_pos()).prop_map(|(tc, ss, ac, odd, (la, lo))| airpos_me(tc, ss, ac, odd, la, lo)),
        1 => (0u32..8, 0u32..8, gen::fill64()).prop_map(|(sub, ver, fill)| bits::me_opstatus(sub, ver, fill)),
        // aircraft status with an embedded Mode A code (TC28 subtype 1, ME bits 12-24)
        1 => (prop_oneof![Just((7u32, 5u32, 0u32, 0u32)), Just((7, 6, 0, 0)), Just((7, 7, 0, 0)), (0u32..8, 0u32..8, 0u32..8, 0u32..8)], 0u32..8, gen::fill64()).prop_map(|((a, b, c, d), emerg, fill)| {
            let mut m = bits::Me(fill & ((1u64 << 56) - 1));
            m.set(1, 5, 28); m.set(6, 8, 1); m.set(9, 11, emerg as u64); m.set(12, 24, bits::id13_from_squawk(a, b, c, d, 0) as u64);
            m.0
        }),
        1 => (prop_oneof![Just(0u32), Just(23u32), Just(24u32), Just(27u32), Just(28u32), Just(29u32), Just(30u32)], gen::fill64()).prop_map(|(tc, fill)| bits::me_raw(tc, fill)),
        // every field of the message zero (or one) under each type code: 'empty' squitters are legal and carry meaning
        // (blank callsign, no movement information, CPR field 0, vertical rate not available ...)
        1 => (0u32..32, prop_oneof![3 => Just(0u64), 1 => Just(u64::MAX)]).prop_map(|(tc, fill)| bits::me_raw(tc, fill)),
    ]
    .boxed()
}

/// MB fields: registers synthesised from values, plus random
pub fn mb_any() -> BoxedStrategy<u64> {
    prop_oneof![
        1 => Just(0u64),
        2 => (any::<bool>(), any::<bool>(), any::<bool>(), any::<u32>()).prop_map(|(a, b, c, o)| gen::mb17(a, b, c, o)),
        2 => gen::chars8().prop_map(gen::mb20),
        1 => gen::fill64().prop_map(|f| (0x30u64 << 48) | (f & 0xFFFF_FFFF_FFFF)),
        1 => gen::fill64().prop_map(|f| (0x10u64 << 48) | (f & 0xFFFF_FFFF_FFFF)),
        2 => gen::r40().prop_map(|r| gen::mb40(&r)),
        2 => gen::r50_plausible().prop_map(|r| gen::mb50(&r)),
        2 => gen::r60_plausible().prop_map(|r| gen::mb60(&r)),
        1 => gen::r50_pool().prop_map(|r| gen::mb50(&r)),
        1 => gen::r60_pool().prop_map(|r| gen::mb60(&r)),
        2 => any::<u64>().prop_map(|f| f & ((1u64 << 56) - 1)),
    ]
    .boxed()
}

/// any well-formed frame of the nine supported formats for `addr`
pub fn frame_any(addr: u32) -> BoxedStrategy<Frame> {
    prop_oneof![
        1 => (gen::ac13_any(), gen::fill128()).prop_map(move |(ac, fill)| bits::df0(addr, ac, fill)),
        3 => (gen::ac13_any(), gen::fill128()).prop_map(move |(ac, fill)| bits::df4(addr, ac, fill)),
        3 => (gen::id13(), gen::fill128()).prop_map(move |(id, fill)| bits::df5(addr, id, fill)),
        3 => (0u32..8, prop_oneof![3 => Just(0u32), 1 => 0u32..128]).prop_map(move |(ca, ic)| bits::df11(addr, ca, ic)),
        1 => (gen::ac13_any(), gen::fill128()).prop_map(move |(ac, fill)| bits::df16(addr, ac, fill)),
        10 => (0u32..8, me_any()).prop_map(move |(ca, me)| bits::es(17, ca, addr, me)),
        2 => (0u32..8, me_any()).prop_map(move |(ca, me)| bits::es(18, ca, addr, me)),
        4 => (gen::ac13_any(), mb_any(), gen::fill128()).prop_map(move |(ac, mb, fill)| bits::df20(addr, ac, mb, fill)),
        4 => (gen::id13(), mb_any(), gen::fill128()).prop_map(move |(id, mb, fill)| bits::df21(addr, id, mb, fill)),
    ]
    .boxed()
}

/// a frame of a DF outside the nine supported formats whose bits 9-32 carry `addr` (the program attributes such a
/// frame by those bits); it carries no modelled parameter
pub fn other_df_frame(addr: u32) -> BoxedStrategy<Frame> {
    (prop_oneof![1u32..4, 6u32..11, 12u32..16, Just(19u32), 22u32..32], gen::fill128())
        .prop_map(move |(df, fill)| {
            let len = if df < 16 { 56 } else { 112 };
            let mut f = Frame::new(len);
            f.bits = fill & ((1u128 << len) - 1);
            f.set(1, 5, df as u64);
            f.set(9, 32, addr as u64);
            f
        })
        .boxed()
}

/// a history step: aircraft index into gen::POOL, frame, seconds of silence before it
#[derive(Clone, Debug, serde::Serialize, serde::Deserialize, PartialEq)]
pub struct Step {
    pub ac: usize,
    pub frame: Frame,
    pub dt: i64,
}

pub fn history(n_aircraft: usize, len: std::ops::Range<usize>, max_dt: i64) -> BoxedStrategy<Vec<Step>> {
    // mostly no time step, sometimes 0..max_dt seconds, rarely the clock steps BACK (stored stamps lie in the future)
    let step = (0..n_aircraft, prop_oneof![30 => Just(0i64), 10 => 0..=max_dt, 1 => Just(-5i64), 1 => Just(-3600i64)]).prop_flat_map(|(ac, dt)| (Just(ac), prop_oneof![15 => frame_any(gen::POOL[ac]), 1 => other_df_frame(gen::POOL[ac])], Just(dt))).prop_map(|(ac, frame, dt)| Step { ac, frame, dt });
    proptest::collection::vec(step, len).boxed()
}
