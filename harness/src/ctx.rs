//! Per-run bookkeeping: counters, samples, failures, known findings, proptest driver.

use proptest::strategy::{Strategy, ValueTree};
use proptest::test_runner::{Config, RngAlgorithm, TestRunner};
use serde::{Deserialize, Serialize};
use serde_json::{json, Value};
use std::collections::{BTreeMap, HashSet};
use std::hash::{Hash, Hasher};

#[derive(Clone, Copy, Debug, PartialEq, Eq, Serialize, Deserialize)]
pub enum Tier {
    Quick,
    Thorough,
}
impl Tier {
    pub fn name(&self) -> &'static str {
        match self {
            Tier::Quick => "quick",
            Tier::Thorough => "thorough",
        }
    }
    /// pick a size by tier
    pub fn pick<T>(&self, q: T, t: T) -> T {
        match self {
            Tier::Quick => q,
            Tier::Thorough => t,
        }
    }
}

#[derive(Clone, Debug, Serialize, Deserialize)]
pub struct Failure {
    pub property: String,
    /// what failed, human readable
    pub msg: String,
    /// signature used to match KNOWN_FINDINGS entries
    pub sig: String,
    /// self-contained replay case: {"kind": ..., ...}
    pub case: Value,
}

#[derive(Clone, Debug, Default, Serialize, Deserialize)]
pub struct WorkerOut {
    pub evaluations: u64,
    pub classes: BTreeMap<String, u64>,
    pub excluded: BTreeMap<String, u64>,
    pub samples: Vec<Value>,
    pub failures: Vec<Failure>,
    pub known_hits: BTreeMap<String, u64>,
    pub nontrivial: Vec<u64>,
    /// non-trivial cases that are distinct by construction (enumerated once each), counted not hashed
    pub nontrivial_enumerated: u64,
    pub exhaustive_dims: Vec<String>,
    pub notes: Vec<String>,
    pub inconclusive: Vec<String>,
}

#[derive(Clone, Debug)]
pub struct Known {
    pub property: String,
    pub sig: String,
    pub text: String,
    /// optional table: key -> observed
    pub table: Option<BTreeMap<String, String>>,
}

pub fn load_known(verif_root: &std::path::Path) -> Vec<Known> {
    let mut out = Vec::new();
    let Ok(txt) = std::fs::read_to_string(verif_root.join("KNOWN_FINDINGS.txt")) else {
        return out;
    };
    for line in txt.lines() {
        let line = line.trim();
        if !line.starts_with("known:") {
            continue;
        }
        let rest = line["known:".len()..].trim();
        let mut property = String::new();
        let mut sig = String::new();
        let mut table = None;
        let mut text = Vec::new();
        for tok in rest.split_whitespace() {
            if let Some(v) = tok.strip_prefix("property=") {
                if property.is_empty() { property = v.to_string(); continue; }
            }
            if let Some(v) = tok.strip_prefix("sig=") {
                if sig.is_empty() { sig = v.to_string(); continue; }
            }
            if let Some(v) = tok.strip_prefix("table=") {
                if table.is_none() {
                    let mut m = BTreeMap::new();
                    if let Ok(t) = std::fs::read_to_string(verif_root.join(v)) {
                        for l in t.lines() {
                            if l.starts_with('#') || l.trim().is_empty() { continue; }
                            let mut it = l.rsplitn(2, '\t');
                            let val = it.next().unwrap_or("").to_string();
                            let key = it.next().unwrap_or("").to_string();
                            m.insert(key, val);
                        }
                    }
                    table = Some(m);
                    continue;
                }
            }
            text.push(tok);
        }
        out.push(Known { property, sig, text: text.join(" "), table });
    }
    out
}

pub struct Ctx {
    pub prop: String,
    pub tier: Tier,
    pub seed: u64,
    pub worker: u32,
    pub nworkers: u32,
    pub out: WorkerOut,
    pub known: Vec<Known>,
    nontrivial: HashSet<u64>,
    pub max_samples: usize,
    pub strict: bool, // replay mode: known findings are reported as failures too
    stream: u64,
}

pub fn hash_of<T: Hash>(t: &T) -> u64 {
    let mut h = std::collections::hash_map::DefaultHasher::new();
    t.hash(&mut h);
    h.finish()
}

impl Ctx {
    pub fn new(prop: &str, tier: Tier, seed: u64, worker: u32, nworkers: u32, known: Vec<Known>) -> Ctx {
        Ctx {
            prop: prop.to_string(),
            tier,
            seed,
            worker,
            nworkers: nworkers.max(1),
            out: WorkerOut::default(),
            known,
            nontrivial: HashSet::new(),
            max_samples: 6,
            strict: false,
            stream: 0,
        }
    }
    pub fn eval(&mut self, n: u64) {
        self.out.evaluations += n;
    }
    pub fn class(&mut self, name: &str) {
        *self.out.classes.entry(name.to_string()).or_insert(0) += 1;
    }
    pub fn class_n(&mut self, name: &str, n: u64) {
        *self.out.classes.entry(name.to_string()).or_insert(0) += n;
    }
    pub fn excluded(&mut self, reason: &str) {
        *self.out.excluded.entry(reason.to_string()).or_insert(0) += 1;
    }
    pub fn excluded_n(&mut self, reason: &str, n: u64) {
        *self.out.excluded.entry(reason.to_string()).or_insert(0) += n;
    }
    pub fn nontrivial<T: Hash>(&mut self, key: &T) {
        self.nontrivial.insert(hash_of(key));
    }
    pub fn nontrivial_count(&self) -> usize {
        self.nontrivial.len() + self.out.nontrivial_enumerated as usize
    }
    /// cases enumerated exactly once each by this run (sweeps): counted, not hashed
    pub fn nontrivial_enumerated(&mut self, n: u64) {
        self.out.nontrivial_enumerated += n;
    }
    pub fn sample(&mut self, v: Value) {
        if self.out.samples.len() < self.max_samples {
            self.out.samples.push(v);
        }
    }
    pub fn want_sample(&self) -> bool {
        self.out.samples.len() < self.max_samples
    }
    pub fn exhaustive(&mut self, dim: &str) {
        if !self.out.exhaustive_dims.iter().any(|d| d == dim) {
            self.out.exhaustive_dims.push(dim.to_string());
        }
    }
    pub fn note(&mut self, s: &str) {
        if self.out.notes.len() < 50 {
            self.out.notes.push(s.to_string());
        }
    }
    pub fn inconclusive(&mut self, s: &str) {
        self.out.inconclusive.push(s.to_string());
    }
    /// index partition for sweeps
    pub fn mine(&self, idx: u64) -> bool {
        idx % self.nworkers as u64 == self.worker as u64
    }

    /// Is this failure a recorded known finding?  `key`/`observed` select a row of the entry's table, if it has one.
    pub fn is_known(&mut self, sig: &str, key: Option<(&str, &str)>) -> bool {
        if self.strict {
            return false;
        }
        for k in &self.known {
            if k.property != self.prop || k.sig != sig {
                continue;
            }
            match (&k.table, key) {
                (None, _) => {
                    *self.out.known_hits.entry(format!("{} {}", k.sig, k.text)).or_insert(0) += 1;
                    return true;
                }
                (Some(t), Some((key, obs))) => {
                    if t.get(key).map(|v| v == obs).unwrap_or(false) {
                        *self.out.known_hits.entry(format!("{} {}", k.sig, k.text)).or_insert(0) += 1;
                        return true;
                    }
                }
                _ => {}
            }
        }
        false
    }

    pub fn fail(&mut self, msg: String, sig: &str, case: Value) {
        if self.out.failures.len() < 20 {
            self.out.failures.push(Failure { property: self.prop.clone(), msg, sig: sig.to_string(), case });
        }
    }
    pub fn failed(&self) -> bool {
        !self.out.failures.is_empty()
    }

    pub fn finish(mut self) -> WorkerOut {
        self.out.nontrivial = self.nontrivial.into_iter().collect();
        self.out
    }

    fn next_seed(&mut self) -> [u8; 32] {
        self.stream += 1;
        let mut s = [0u8; 32];
        let parts = [self.seed, self.worker as u64, self.stream, hash_of(&self.prop)];
        for (i, p) in parts.iter().enumerate() {
            s[i * 8..i * 8 + 8].copy_from_slice(&p.to_le_bytes());
        }
        s
    }

    /// Draw `n` values from a strategy with this run's seeded generator (no shrinking; for sweeps that
    /// enumerate a dimension themselves and use proptest for the remaining context).
    pub fn draw<S: Strategy>(&mut self, n: usize, strategy: S) -> Vec<S::Value> {
        let seed = self.next_seed();
        let cfg = Config { failure_persistence: None, rng_algorithm: RngAlgorithm::ChaCha, max_local_rejects: u32::MAX, max_global_rejects: u32::MAX, ..Config::default() };
        let rng = proptest::test_runner::TestRng::from_seed(RngAlgorithm::ChaCha, &seed);
        let mut runner = TestRunner::new_with_rng(cfg, rng);
        let mut out = Vec::with_capacity(n);
        for _ in 0..n {
            if let Ok(t) = strategy.new_tree(&mut runner) {
                out.push(t.current());
            }
        }
        out
    }

    /// Drive `check` with `cases` generated values (this worker's share).  On the first `Err` the value is
    /// shrunk by proptest; the minimal case and its message are returned.  `check` must be deterministic.
    pub fn proptest<S, F>(&mut self, total_cases: u32, strategy: S, mut check: F) -> Option<(S::Value, String)>
    where
        S: Strategy,
        S::Value: Clone + std::fmt::Debug,
        F: FnMut(&mut Ctx, &S::Value, bool) -> Result<(), String>,
    {
        let share = total_cases / self.nworkers + if (total_cases % self.nworkers) > self.worker { 1 } else { 0 };
        if share == 0 {
            return None;
        }
        let seed = self.next_seed();
        // filters in the generators reject a small fraction of draws; over millions of cases the default cumulative limit
        // (65 536 local rejects) would be reached, so the limits are lifted
        let cfg = Config { cases: share, failure_persistence: None, max_shrink_iters: 4000, rng_algorithm: RngAlgorithm::ChaCha, max_local_rejects: u32::MAX, max_global_rejects: u32::MAX, ..Config::default() };
        let rng = proptest::test_runner::TestRng::from_seed(RngAlgorithm::ChaCha, &seed);
        let mut runner = TestRunner::new_with_rng(cfg, rng);
        // manual loop: we need `self` inside the closure and want to stop counting when shrinking starts
        let mut failing: Option<(S::Tree, String)> = None;
        for _ in 0..share {
            let tree = match strategy.new_tree(&mut runner) {
                Ok(t) => t,
                Err(e) => {
                    self.inconclusive(&format!("generator rejected: {}", e));
                    return None;
                }
            };
            let v = tree.current();
            match check(self, &v, true) {
                Ok(()) => {}
                Err(m) => {
                    failing = Some((tree, m));
                    break;
                }
            }
        }
        let (mut tree, mut msg) = failing?;
        // shrink (proptest's own schedule: simplify after a failure, complicate after a pass)
        let mut best = tree.current();
        let mut iters = 0;
        if tree.simplify() {
            loop {
                iters += 1;
                if iters > 4000 {
                    break;
                }
                let v = tree.current();
                match check(self, &v, false) {
                    Err(m) => {
                        best = v;
                        msg = m;
                        if !tree.simplify() {
                            break;
                        }
                    }
                    Ok(()) => {
                        if !tree.complicate() {
                            break;
                        }
                    }
                }
            }
        }
        Some((best, msg))
    }
}

pub fn evidence_json(prop: &str, tier: Tier, seed: u64, level: &str, rule: &str, assumptions: &[&str], merged: &WorkerOut, distinct: usize, wall_s: f64, exhaustive: bool, extra: Value) -> Value {
    let mut cov = json!({
        "evaluations": merged.evaluations,
        "distinct_nontrivial": distinct,
        "rule": rule,
        "samples": merged.samples,
        "classes": merged.classes,
        "excluded": merged.excluded,
        "exhaustive": exhaustive,
        "exhaustive_dimensions": merged.exhaustive_dims,
        "known_findings_reobserved": merged.known_hits,
        "notes": merged.notes,
    });
    if let (Some(c), Some(e)) = (cov.as_object_mut(), extra.as_object()) {
        for (k, v) in e {
            c.insert(k.clone(), v.clone());
        }
    }
    json!({
        "property_id": prop,
        "tier": tier.name(),
        "seed": seed,
        "level": level,
        "coverage": cov,
        "assumptions": assumptions,
        "wall_s": wall_s,
        "violations": merged.failures.len(),
    })
}
